//! C16 — every command acts on the selected account and prints the standard
//! result (CLI differential against the reference stack).
//!
//! One case = one configuration (mnemonic, passphrase, account selector, where
//! each option comes from: flag or environment) x one subcommand x one input
//! channel x one payload, rendered to argv/env/stdin. The judge derives the
//! expected line from the model with the reference stack only and runs the
//! executable; `sign *` cases also run the matching `hash *` command on the
//! same payload, and some cases run a "twin" invocation in which every option
//! that came from a flag comes from the environment and vice versa.

use crate::cli::{self, CliOut, Invocation};
use crate::engine::{fail, replay_as, Classifier, Ctx, Prng, Verdict};
use crate::gen::json::J;
use crate::gen::td::{self, TdCase, TdModel, ValGen};
use crate::gen::txgen::{self, TxCase};
use crate::gen::U;
use crate::refimpl::bip32::{self, Step};
use crate::refimpl::eip712::{StructDef, Ty, TypeGraph, Val};
use crate::refimpl::tx::Kind;
use crate::refimpl::u256::Big;
use crate::refimpl::{address_of, bip39, eip191, eip55, hex0x, hex_lower, keccak, rfc6979, secp, unhex};
use proptest::prelude::*;
use serde::{Deserialize, Serialize};
use serde_json::{json, Value};
use std::cmp::Ordering;
use std::path::PathBuf;
use std::sync::{Mutex, OnceLock};
use std::time::Duration;
use unicode_normalization::UnicodeNormalization;

// ---------------------------------------------------------------- statics

static CLI: OnceLock<PathBuf> = OnceLock::new();
static ROOT: OnceLock<PathBuf> = OnceLock::new();
/// watchdog expiries / spawn failures seen by judges (reported as INCONCLUSIVE by run())
static TIMEOUTS: Mutex<Vec<String>> = Mutex::new(Vec::new());

const PLACEHOLDER: &str = "@PAYLOAD@";
const TIMEOUT: Duration = Duration::from_secs(60);

fn cli_path() -> Option<PathBuf> {
    CLI.get().cloned().or_else(|| std::env::var_os("HDV_CLI").map(PathBuf::from))
}

fn root_path() -> PathBuf {
    ROOT.get().cloned().unwrap_or_else(|| PathBuf::from("/verif"))
}

fn set_statics(ctx: &Ctx) {
    if let Some(c) = &ctx.cli {
        let _ = CLI.set(c.clone());
    }
    let _ = ROOT.set(ctx.root.clone());
}

// ---------------------------------------------------------------- case model

#[derive(Clone, Copy, Debug, PartialEq, Eq, Hash, Serialize, Deserialize)]
pub enum Cmd {
    Address,
    Export,
    PublicKey,
    SignMessage,
    SignTx,
    SignTxSigOnly,
    SignTypedData,
    SignRaw,
    HashData,
    HashMessage,
    HashTx,
    HashTypedData,
    HashTypedDataMsg,
}

impl Cmd {
    pub fn name(self) -> &'static str {
        match self {
            Cmd::Address => "address",
            Cmd::Export => "export",
            Cmd::PublicKey => "public-key",
            Cmd::SignMessage => "sign message",
            Cmd::SignTx => "sign transaction",
            Cmd::SignTxSigOnly => "sign transaction --signature-only",
            Cmd::SignTypedData => "sign typeddata",
            Cmd::SignRaw => "sign raw",
            Cmd::HashData => "hash data",
            Cmd::HashMessage => "hash message",
            Cmd::HashTx => "hash transaction",
            Cmd::HashTypedData => "hash typeddata",
            Cmd::HashTypedDataMsg => "hash typeddata --message-hash",
        }
    }
    fn needs_account(self) -> bool {
        !matches!(self, Cmd::HashData | Cmd::HashMessage | Cmd::HashTx | Cmd::HashTypedData | Cmd::HashTypedDataMsg)
    }
    fn has_channel(self) -> bool {
        !matches!(self, Cmd::Address | Cmd::Export | Cmd::PublicKey | Cmd::SignRaw)
    }
    fn is_sign(self) -> bool {
        matches!(self, Cmd::SignMessage | Cmd::SignTx | Cmd::SignTxSigOnly | Cmd::SignTypedData | Cmd::SignRaw)
    }
    fn matching_hash(self) -> Option<Cmd> {
        match self {
            Cmd::SignMessage => Some(Cmd::HashMessage),
            Cmd::SignTx | Cmd::SignTxSigOnly => Some(Cmd::HashTx),
            Cmd::SignTypedData => Some(Cmd::HashTypedData),
            _ => None,
        }
    }
}

#[derive(Clone, Copy, Debug, PartialEq, Eq, Hash, Serialize, Deserialize)]
pub enum Channel {
    /// the command reads no payload (or takes it as an argument)
    None,
    File,
    Stdin,
    /// the path /dev/stdin (not a regular file: its size is reported as 0), payload on stdin
    DevStdin,
}

impl Channel {
    fn name(self) -> &'static str {
        match self {
            Channel::None => "-",
            Channel::File => "file",
            Channel::Stdin => "stdin",
            Channel::DevStdin => "dev-stdin",
        }
    }
}

#[derive(Clone, Debug, PartialEq, Eq, Hash, Serialize, Deserialize)]
pub enum Selector {
    /// neither --account-index nor --hd-path: account 0
    Default,
    Index(u32),
    Path(Vec<Step>),
    /// both given: must be refused
    Both { index: u32, path: Vec<Step> },
}

/// Where an option comes from: "absent", "long" (`--opt V`), "long=" (`--opt=V`),
/// "short" (`-m V`, mnemonic only) or "env".
#[derive(Clone, Debug, PartialEq, Eq, Hash, Serialize, Deserialize)]
pub struct Sources {
    pub mnemonic: String,
    pub password: String,
    pub index: String,
    pub path: String,
}

#[derive(Clone, Debug, Serialize, Deserialize)]
pub enum Payload {
    None,
    /// message / data bytes
    Bytes { hex: String },
    Tx(TxCase),
    Td(TdCase),
    /// `sign raw`: the digest and the argument text it is spelled as
    Digest { hex: String, text: String, spelling: String },
}

impl Payload {
    fn bytes(&self) -> Vec<u8> {
        match self {
            Payload::Bytes { hex } => unhex(hex).unwrap_or_default(),
            Payload::Tx(t) => t.doc.clone().into_bytes(),
            Payload::Td(t) => t.doc.clone().into_bytes(),
            _ => vec![],
        }
    }
}

#[derive(Clone, Debug, Serialize, Deserialize)]
pub struct Case {
    // ---- model
    pub entropy_hex: String,
    pub phrase: String,
    pub passphrase: String,
    pub selector: Selector,
    pub sources: Sources,
    pub cmd: Cmd,
    pub channel: Channel,
    pub payload: Payload,
    // ---- rendering (exactly what the executable receives; PLACEHOLDER stands
    // for the path of a scratch file holding the payload bytes)
    pub run: Invocation,
    /// for `sign message|transaction|typeddata`: the matching `hash` command on the same payload
    pub hash_run: Option<Invocation>,
    /// same configuration with flag-provided options moved to the environment and vice versa
    pub twin: Option<Invocation>,
}

// ---------------------------------------------------------------- generator

const PASS_POOL: &[&str] = &[
    "TREZOR",
    "password",
    " leading and trailing ",
    "-dash-first",
    "--password",
    "a=b c",
    "tab\tand\nnewline",
    "zero\u{200d}width\u{200c}joiners", // invisible formatting characters are part of the passphrase
    "\u{200e}ltr-mark-first",
    "bom\u{feff}inside",
    "\u{e9}",                 // precomposed e-acute
    "e\u{301}",               // decomposed e-acute
    "\u{fb01}sh",             // fi ligature
    "\u{ff21}\u{ff22}\u{ff11}", // full-width
    "\u{212b}",               // Angstrom sign
    "\u{2126}",               // Ohm sign
    "x\u{b2}",                // superscript two
    "\u{1d400}\u{1d7d7}",     // mathematical alphanumerics (astral)
    "\u{d55c}\u{ae00}",       // Hangul syllables
    "\u{1f600}",              // emoji
    "a\u{307}\u{323}",        // combining marks needing reordering
    "\u{30d1}\u{30b9}\u{30ef}\u{30fc}\u{30c9}", // katakana
    "\u{ff8a}\u{ff9f}\u{ff7d}", // half-width katakana
    "\u{1e9b}\u{323}",        // long s with dot above + dot below
];

const UNI_RANGES: &[(u32, u32)] = &[
    (0x20, 0x7e),
    (0xa0, 0x24f),
    (0x300, 0x36f),
    (0x391, 0x3a9),
    (0x1e00, 0x1eff),
    (0x2100, 0x214f),
    (0x2460, 0x24ff),
    (0x3041, 0x30ff),
    (0xac00, 0xd7a3),
    (0xfb00, 0xfb06),
    (0xff01, 0xff9f),
    (0x1d400, 0x1d7ff),
    (0x1f600, 0x1f64f),
];

fn gen_passphrase(u: &mut U) -> String {
    match u.below(10) {
        0..=2 => String::new(),
        3..=5 => u.pick(PASS_POOL).to_string(),
        6..=7 => {
            let n = u.range(1, 16);
            (0..n).map(|_| (0x20 + u.below(0x5f) as u8) as char).collect()
        }
        _ => {
            let n = u.range(1, 6);
            (0..n)
                .map(|_| {
                    let (lo, hi) = UNI_RANGES[u.below(UNI_RANGES.len())];
                    char::from_u32(lo + u.below((hi - lo + 1) as usize) as u32).unwrap_or('?')
                })
                .collect()
        }
    }
}

fn gen_entropy(u: &mut U) -> Vec<u8> {
    let len = [16usize, 20, 24, 28, 32][u.below(5)];
    match u.below(8) {
        0 => vec![0u8; len],
        1 => vec![0xff; len],
        _ => u.bytes(len),
    }
}

fn gen_account_index(u: &mut U) -> u32 {
    match u.below(10) {
        0 => 0,
        1 => 1,
        2 => 2,
        3 | 4 => 0x7fff_ffff,
        5 => u.below(100) as u32,
        6 => 0x7fff_fffe,
        _ => u.u32() & 0x7fff_ffff,
    }
}

fn gen_selector(u: &mut U) -> Selector {
    match u.below(10) {
        0 | 1 => Selector::Default,
        2..=4 => Selector::Index(gen_account_index(u)),
        5..=8 => {
            if u.ratio(1, 5) {
                // the default path spelled out: must select the same key as the index
                Selector::Path(bip32::default_path(gen_account_index(u)))
            } else {
                Selector::Path(super::c03::gen_path(u, 8))
            }
        }
        _ => Selector::Both { index: gen_account_index(u), path: super::c03::gen_path(u, 6) },
    }
}

fn gen_sources(u: &mut U, pass: &str, sel: &Selector) -> Sources {
    let mnemonic = ["long", "short", "long=", "env", "env"][u.below(5)].to_string();
    let mut password = if pass.is_empty() {
        ["absent", "absent", "long", "long=", "env"][u.below(5)]
    } else {
        ["long", "long=", "env", "env"][u.below(4)]
    }
    .to_string();
    if pass.starts_with('-') && password == "long" {
        // `--password -x` is read as a flag by the argument parser; not a case the property decides
        password = "long=".into();
    }
    let three = |u: &mut U| ["long", "long=", "env"][u.below(3)].to_string();
    let (index, path) = match sel {
        Selector::Default => ("absent".to_string(), "absent".to_string()),
        Selector::Index(_) => (three(u), "absent".to_string()),
        Selector::Path(_) => ("absent".to_string(), three(u)),
        Selector::Both { .. } => (three(u), three(u)),
    };
    Sources { mnemonic, password, index, path }
}

fn flip(s: &str) -> String {
    match s {
        "absent" => "absent",
        "env" => "long",
        _ => "env",
    }
    .to_string()
}

fn flipped(s: &Sources, pass: &str) -> Sources {
    let mut password = flip(&s.password);
    if pass.starts_with('-') && password == "long" {
        password = "long=".into();
    }
    Sources { mnemonic: flip(&s.mnemonic), password, index: flip(&s.index), path: flip(&s.path) }
}

fn opt_tokens(how: &str, long: &str, short: &str, env: &str, value: &str, args: &mut Vec<Vec<String>>, envs: &mut Vec<(String, String)>) {
    match how {
        "absent" => {}
        "env" => envs.push((env.to_string(), value.to_string())),
        "long=" => args.push(vec![format!("{long}={value}")]),
        "short" => args.push(vec![short.to_string(), value.to_string()]),
        _ => args.push(vec![long.to_string(), value.to_string()]),
    }
}

/// Renders the account options; `order_salt` permutes the option groups.
fn render_account(phrase: &str, pass: &str, sel: &Selector, src: &Sources, order_salt: usize) -> (Vec<String>, Vec<(String, String)>) {
    let mut groups: Vec<Vec<String>> = vec![];
    let mut envs = vec![];
    opt_tokens(&src.mnemonic, "--mnemonic", "-m", "MNEMONIC", phrase, &mut groups, &mut envs);
    opt_tokens(&src.password, "--password", "--password", "PASSWORD", pass, &mut groups, &mut envs);
    let (index, path) = match sel {
        Selector::Default => (None, None),
        Selector::Index(i) => (Some(*i), None),
        Selector::Path(p) => (None, Some(p)),
        Selector::Both { index, path } => (Some(*index), Some(path)),
    };
    if let Some(i) = index {
        opt_tokens(&src.index, "--account-index", "--account-index", "ACCOUNT_INDEX", &crate::refimpl::dec(i as u128), &mut groups, &mut envs);
    }
    if let Some(p) = path {
        opt_tokens(&src.path, "--hd-path", "--hd-path", "HD_PATH", &bip32::render(p), &mut groups, &mut envs);
    }
    // deterministic permutation of the groups and of the environment entries
    let n = groups.len();
    if n > 1 {
        groups.rotate_left(order_salt % n);
        if (order_salt / 7) % 2 == 1 {
            groups.reverse();
        }
    }
    if envs.len() > 1 && (order_salt / 3) % 2 == 1 {
        envs.reverse();
    }
    (groups.into_iter().flatten().collect(), envs)
}

/// The tokens after the account options: subcommand, its flags and its payload argument.
fn sub_tokens(cmd: Cmd, channel: Channel, payload: &Payload, salt: usize) -> Vec<String> {
    let pos = match channel {
        Channel::File => PLACEHOLDER.to_string(),
        Channel::Stdin => "-".to_string(),
        Channel::DevStdin => "/dev/stdin".to_string(),
        Channel::None => String::new(),
    };
    let mut flags: Vec<String> = vec![];
    let head: &[&str] = match cmd {
        Cmd::Address | Cmd::Export | Cmd::PublicKey => return vec![],
        Cmd::SignMessage => &["message"],
        Cmd::SignTx | Cmd::SignTxSigOnly => {
            if cmd == Cmd::SignTxSigOnly {
                flags.push("--signature-only".into());
            }
            if let Payload::Tx(t) = payload {
                if t.model.kind == Kind::Legacy && t.model.chain_id.is_none() {
                    flags.push("--allow-missing-relay-protection".into());
                }
            }
            &["transaction"]
        }
        Cmd::SignTypedData => &["typeddata"],
        Cmd::SignRaw => {
            let text = match payload {
                Payload::Digest { text, .. } => text.clone(),
                _ => String::new(),
            };
            return vec!["raw".into(), text];
        }
        Cmd::HashData => &["data"],
        Cmd::HashMessage => &["message"],
        Cmd::HashTx => &["transaction"],
        Cmd::HashTypedData => &["typeddata"],
        Cmd::HashTypedDataMsg => {
            flags.push(if salt % 2 == 0 { "--message-hash" } else { "-m" }.into());
            &["typeddata"]
        }
    };
    let mut out: Vec<String> = head.iter().map(|s| s.to_string()).collect();
    // flags before or after the positional argument
    if (salt / 2) % 2 == 0 {
        out.extend(flags);
        out.push(pos);
    } else {
        out.push(pos);
        out.extend(flags);
    }
    out
}

fn top_token(cmd: Cmd) -> &'static str {
    match cmd {
        Cmd::Address => "address",
        Cmd::Export => "export",
        Cmd::PublicKey => "public-key",
        c if c.is_sign() => "sign",
        _ => "hash",
    }
}

#[allow(clippy::too_many_arguments)]
fn render(cmd: Cmd, channel: Channel, payload: &Payload, phrase: &str, pass: &str, sel: &Selector, src: &Sources, salt: usize) -> Invocation {
    let mut args = vec![top_token(cmd).to_string()];
    let mut inv = Invocation::default();
    if cmd.needs_account() {
        let (a, e) = render_account(phrase, pass, sel, src, salt);
        args.extend(a);
        inv.env = e;
    }
    // Both selectors given to a `sign` command: half of the time one of them is placed after the nested subcommand
    // and its argument (where the unchanged tool does not take account options at all) - the pair must be refused
    // wherever its halves stand
    let mut moved: Vec<String> = vec![];
    if matches!(sel, Selector::Both { .. }) && cmd.is_sign() && (salt / 13) % 2 == 1 {
        if let Some(i) = args.iter().position(|a| a == "--account-index" || a.starts_with("--account-index=") || a == "--hd-path" || a.starts_with("--hd-path=")) {
            let n = if args[i].contains('=') { 1 } else { 2 };
            if i + n <= args.len() {
                moved = args.drain(i..i + n).collect();
            }
        }
    }
    args.extend(sub_tokens(cmd, channel, payload, salt / 11));
    args.extend(moved);
    inv.args = args;
    if channel == Channel::Stdin || channel == Channel::DevStdin {
        inv = inv.stdin(&payload.bytes());
    }
    inv
}

// -------- payloads

fn gen_bytes(u: &mut U) -> Vec<u8> {
    match u.below(10) {
        0 => vec![],
        1 => b"hello world!".to_vec(),
        2 => u.pick(PASS_POOL).as_bytes().to_vec(),
        3 => {
            // text with a trailing newline (must be hashed as is)
            let n = u.range(1, 20);
            let mut v: Vec<u8> = (0..n).map(|_| 0x20 + u.below(0x5f) as u8).collect();
            v.push(b'\n');
            v
        }
        4 => vec![[0x00u8, 0x0a, 0x2d, 0x80, 0xff][u.below(5)]],
        7 => crate::gen::TRICKY_BYTES[u.below(crate::gen::TRICKY_BYTES.len())].to_vec(),
        6 => {
            // larger than one read() chunk / one pipe buffer: the whole input must be used on every channel
            let n = [8191usize, 8192, 8193, 12_000, 20_000, 65_535, 65_536, 65_537, 100_000][u.below(9)];
            crate::engine::Prng::new(u.u64()).bytes(n)
        }
        5 => {
            // bytes that are not UTF-8
            let n = u.range(1, 40);
            let mut v = u.bytes(n);
            v.push(0xff);
            v
        }
        _ => {
            let n = [1usize, 9, 10, 31, 32, 33, 99, 100, 255, 256, 1000][u.below(11)];
            u.bytes(n)
        }
    }
}

const SIMPLE_STRUCTS: &[&str] = &["Mail", "Person", "Order", "Item", "Transfer", "Permit"];
const SIMPLE_MEMBERS: &[&str] = &["from", "to", "value", "amount", "nonce", "deadline", "memo", "flag", "data", "tags"];

/// A deliberately simple typed-data document: one primary struct with atomic
/// members, at most one nested struct (referenced once, atomic members only)
/// and at most one array of an atomic type. No shared or recursive
/// dependencies (those are C08's subject).
fn gen_simple_td(u: &mut U) -> TdCase {
    let pi = u.below(SIMPLE_STRUCTS.len());
    let primary = SIMPLE_STRUCTS[pi].to_string();
    let nested_name = SIMPLE_STRUCTS[(pi + 1 + u.below(SIMPLE_STRUCTS.len() - 1)) % SIMPLE_STRUCTS.len()].to_string();
    let with_nested = u.bool();
    let with_array = u.bool();
    let mut names: Vec<&str> = SIMPLE_MEMBERS.to_vec();
    let mut take = |u: &mut U| names.remove(u.below(names.len())).to_string();
    let mut members: Vec<(String, Ty)> = vec![];
    for _ in 0..u.range(1, 4) {
        members.push((take(u), td::atomic(u)));
    }
    if with_nested {
        members.push((take(u), Ty::Struct(nested_name.clone())));
    }
    if with_array {
        let size = if u.bool() { None } else { Some(u.below(4) as u32) };
        members.push((take(u), Ty::Array(Box::new(td::atomic(u)), size)));
    }
    u.shuffle(&mut members);
    let mut structs = vec![StructDef { name: primary.clone(), members }];
    if with_nested {
        let mut inner_names: Vec<&str> = SIMPLE_MEMBERS.to_vec();
        let mut inner = vec![];
        for _ in 0..u.range(1, 3) {
            let n = inner_names.remove(u.below(inner_names.len())).to_string();
            inner.push((n, td::atomic(u)));
        }
        structs.push(StructDef { name: nested_name, members: inner });
    }
    let (ddef, dval) = td::gen_domain(u);
    structs.push(ddef);
    let graph = TypeGraph { structs };
    let message = {
        let mut vg = ValGen { graph: &graph, nodes: 0, node_limit: 60 };
        vg.val(u, &Ty::Struct(primary.clone()), 2)
    };
    let model = TdModel { graph, primary, message, domain: dval };
    let doc = render_simple_doc(&model, u).render();
    TdCase { doc, model }
}

/// Integers: a JSON number below 2^53, otherwise a decimal or 0x string.
fn render_uint(x: &Big, u: &mut U) -> J {
    if x.bit_len() <= 53 && u.bool() {
        J::Num(x.to_dec())
    } else if u.bool() {
        J::Str(x.to_dec())
    } else {
        J::Str(format!("0x{}", x.to_hex()))
    }
}

fn render_simple_val(t: &Ty, v: &Val, graph: &TypeGraph, u: &mut U) -> J {
    match (t, v) {
        (_, Val::Bool(b)) => J::Bool(*b),
        (_, Val::Address(a)) => J::Str(if u.bool() { hex0x(a) } else { eip55(a) }),
        (_, Val::Str(s)) => J::Str(s.clone()),
        (_, Val::Bytes(b)) => J::Str(hex0x(b)),
        (_, Val::Uint(x)) => render_uint(x, u),
        (_, Val::Int { neg, mag }) => {
            if !*neg || mag.is_zero() {
                render_uint(mag, u)
            } else if mag.bit_len() <= 53 && u.bool() {
                J::Num(format!("-{}", mag.to_dec()))
            } else {
                J::Str(format!("-{}", mag.to_dec()))
            }
        }
        (Ty::Struct(name), Val::Struct(fields)) => {
            let def = graph.get(name).expect("defined");
            let mut kv: Vec<(String, J)> = fields
                .iter()
                .map(|(n, fv)| {
                    let mt = &def.members.iter().find(|(mn, _)| mn == n).expect("member").1;
                    (n.clone(), render_simple_val(mt, fv, graph, u))
                })
                .collect();
            u.shuffle(&mut kv);
            J::Obj(kv)
        }
        (Ty::Array(e, _), Val::Array(items)) => J::Arr(items.iter().map(|i| render_simple_val(e, i, graph, u)).collect()),
        _ => J::Null,
    }
}

fn render_simple_doc(model: &TdModel, u: &mut U) -> J {
    let types = td::render_types(&model.graph, u);
    let domain = render_simple_val(&Ty::Struct("EIP712Domain".into()), &model.domain, &model.graph, u);
    let message = render_simple_val(&Ty::Struct(model.primary.clone()), &model.message, &model.graph, u);
    let mut top = vec![
        ("types".to_string(), types),
        ("primaryType".to_string(), J::Str(model.primary.clone())),
        ("domain".to_string(), domain),
        ("message".to_string(), message),
    ];
    u.shuffle(&mut top);
    J::Obj(top)
}

fn gen_raw_digest(u: &mut U) -> Payload {
    let d = super::c05::gen_digest(u);
    let lower = hex_lower(&d);
    let upper = lower.to_ascii_uppercase();
    let (spelling, text) = match u.below(8) {
        0..=3 => ("0x-lower", format!("0x{lower}")),
        4 | 5 => ("bare-lower", lower.clone()),
        6 => ("0x-upper", format!("0x{upper}")),
        _ => ("bare-upper", upper),
    };
    Payload::Digest { hex: lower, text, spelling: spelling.to_string() }
}

/// (command, channel) cells with repetition = relative weight.
fn cells() -> Vec<(Cmd, Channel)> {
    let mut v = vec![];
    for c in [Cmd::Address, Cmd::Export, Cmd::PublicKey, Cmd::SignRaw] {
        for _ in 0..3 {
            v.push((c, Channel::None));
        }
    }
    for c in [Cmd::SignMessage, Cmd::SignTx, Cmd::SignTxSigOnly, Cmd::SignTypedData] {
        for ch in [Channel::File, Channel::Stdin] {
            v.push((c, ch));
            v.push((c, ch));
        }
    }
    for c in [Cmd::HashData, Cmd::HashMessage, Cmd::HashTx, Cmd::HashTypedData, Cmd::HashTypedDataMsg] {
        for ch in [Channel::File, Channel::Stdin] {
            v.push((c, ch));
        }
    }
    // every payload-reading command also through a path that is not a regular file
    for c in [Cmd::SignMessage, Cmd::SignTx, Cmd::SignTxSigOnly, Cmd::SignTypedData, Cmd::HashData, Cmd::HashMessage, Cmd::HashTx, Cmd::HashTypedData, Cmd::HashTypedDataMsg] {
        v.push((c, Channel::DevStdin));
    }
    v
}

fn all_cells() -> Vec<(Cmd, Channel)> {
    let mut v = cells();
    v.dedup();
    v
}

pub fn gen_case(tape: Vec<u8>) -> Case {
    let mut u = U::new(&tape);
    let cs = cells();
    let (cmd, channel) = cs[u.below(cs.len())];
    build_case(&mut u, cmd, channel, None)
}

/// Builds a case for a given cell; `forced` fixes the selector kind
/// (0 none, 1 index, 2 path, 3 both) and the option sources (used by the
/// exhaustive matrix), otherwise both are generated.
fn build_case(u: &mut U, cmd: Cmd, channel: Channel, forced: Option<(u8, Sources)>) -> Case {
    let entropy = gen_entropy(u);
    let phrase = bip39::encode_phrase(&entropy);
    let (passphrase, selector, sources) = if !cmd.needs_account() {
        (
            String::new(),
            Selector::Default,
            Sources { mnemonic: "absent".into(), password: "absent".into(), index: "absent".into(), path: "absent".into() },
        )
    } else if let Some((kind, src)) = forced {
        // the matrix wants every given option to matter: non-empty passphrase, index != 0
        let mut p = gen_passphrase(u);
        if p.is_empty() {
            p = u.pick(PASS_POOL).to_string();
        }
        let index = gen_account_index(u).max(1);
        let path = super::c03::gen_path(u, 6);
        let s = match kind {
            0 => Selector::Default,
            1 => Selector::Index(index),
            2 => Selector::Path(path),
            _ => Selector::Both { index, path },
        };
        let mut src = src;
        if p.starts_with('-') && src.password == "long" {
            src.password = "long=".into();
        }
        (p, s, src)
    } else {
        let p = gen_passphrase(u);
        let s = gen_selector(u);
        let src = gen_sources(u, &p, &s);
        (p, s, src)
    };
    let salt = u.below(1 << 16);
    let payload = match cmd {
        Cmd::Address | Cmd::Export | Cmd::PublicKey => Payload::None,
        Cmd::SignRaw => gen_raw_digest(u),
        Cmd::SignMessage | Cmd::HashMessage | Cmd::HashData => Payload::Bytes { hex: hex_lower(&gen_bytes(u)) },
        Cmd::SignTx | Cmd::SignTxSigOnly | Cmd::HashTx => Payload::Tx(txgen::gen_case(u, 64)),
        Cmd::SignTypedData | Cmd::HashTypedData | Cmd::HashTypedDataMsg => Payload::Td(gen_simple_td(u)),
    };
    // One signed transaction in four names its sender, as JSON-RPC objects do: the `from` member holds the address
    // of exactly the selected account, in lower case, upper case or EIP-55 spelling. A tool that ignores the member
    // (as the unchanged one does) or checks it must sign all the same.
    let payload = match payload {
        Payload::Tx(mut t) if matches!(cmd, Cmd::SignTx | Cmd::SignTxSigOnly) && u.ratio(1, 4) => {
            let path = match &selector {
                Selector::Default => Some(bip32::default_path(0)),
                Selector::Index(i) => Some(bip32::default_path(*i)),
                Selector::Path(p) => Some(p.clone()),
                _ => None,
            };
            let addr = path.filter(|p| p.iter().all(|s| s.index < 0x8000_0000)).and_then(|p| {
                let seed = bip39::seed_from_normalised(&phrase, &nfkd(&passphrase));
                let key = bip32::derive(&seed, &p).ok()?;
                Some(crate::refimpl::address_of(&secp::mul_g(&key)?))
            });
            if let (Some(a), Some(i)) = (addr, t.doc.find('{')) {
                let text = match u.below(3) {
                    0 => crate::refimpl::hex0x(&a),
                    1 => format!("0x{}", crate::refimpl::hex0x(&a)[2..].to_uppercase()),
                    _ => crate::refimpl::eip55(&a),
                };
                t.doc.insert_str(i + 1, &format!("\"from\":\"{text}\","));
            }
            Payload::Tx(t)
        }
        // one in six: the signature members of a JSON-RPC transaction object (copied from eth_getTransactionByHash):
        // `sign` signs the digest the matching `hash` prints, whatever either makes of them
        Payload::Tx(mut t) if matches!(cmd, Cmd::SignTx | Cmd::SignTxSigOnly) && u.ratio(1, 5) => {
            if let Some(i) = t.doc.find('{') {
                let v = ["\"0x1b\"", "\"0x25\"", "\"0x26\"", "\"0x0\"", "\"0x1\"", "27"][u.below(6)];
                let key = if u.bool() { "v" } else { "yParity" };
                t.doc.insert_str(i + 1, &format!("\"r\":\"0x{}\",\"s\":\"0x{}\",\"{key}\":{v},\"hash\":\"0x{}\",", hex_lower(&u.bytes(32)), hex_lower(&u.bytes(32)), hex_lower(&u.bytes(32))));
            }
            Payload::Tx(t)
        }
        p => p,
    };
    // one account case in four gives the same words in another white-space layout (two blanks, a tab, one word
    // per line, blanks at the ends): the mnemonic is its words (C01, C02), so the account is the same
    let shown = if cmd.needs_account() && u.ratio(1, 4) {
        let sep = ["  ", "\t", "\n", " \n", "   "][u.below(5)];
        let words: Vec<&str> = phrase.split(' ').collect();
        let k = 1 + u.below(words.len() - 1);
        let mut t = String::new();
        if u.bool() {
            t.push(' ');
        }
        for (i, w) in words.iter().enumerate() {
            if i > 0 {
                t.push_str(if i == k || u.ratio(1, 3) { sep } else { " " });
            }
            t.push_str(w);
        }
        if u.bool() {
            t.push_str([" ", "\n", "  "][u.below(3)]);
        }
        t
    } else {
        phrase.clone()
    };
    let phrase_arg = shown.as_str();
    let run = render(cmd, channel, &payload, phrase_arg, &passphrase, &selector, &sources, salt);
    let hash_run = cmd.matching_hash().map(|h| {
        let ch = [Channel::File, Channel::Stdin, Channel::File, Channel::Stdin, Channel::DevStdin][u.below(5)];
        render(h, ch, &payload, "", "", &Selector::Default, &sources, salt / 5)
    });
    let twin = (cmd.needs_account() && u.ratio(1, 3)).then(|| {
        let other = flipped(&sources, &passphrase);
        render(cmd, channel, &payload, phrase_arg, &passphrase, &selector, &other, salt / 3)
    });
    Case { entropy_hex: hex_lower(&entropy), phrase, passphrase, selector, sources, cmd, channel, payload, run, hash_run, twin }
}

/// Exhaustive matrix: every account subcommand x selector kind x "flag or
/// environment" for each option that is given. Filler (mnemonic, passphrase,
/// index, path, payload) is drawn from the seeded PRNG.
fn matrix_cases(ctx: &Ctx) -> Vec<Case> {
    let cmds = [Cmd::Address, Cmd::Export, Cmd::PublicKey, Cmd::SignMessage, Cmd::SignTx, Cmd::SignTxSigOnly, Cmd::SignTypedData, Cmd::SignRaw];
    let fe = ["long", "env"];
    let mut out = vec![];
    let mut k = 0u64;
    for cmd in cmds {
        for kind in 0u8..4 {
            let index_opts: &[&str] = if kind == 1 || kind == 3 { &fe } else { &["absent"] };
            let path_opts: &[&str] = if kind == 2 || kind == 3 { &fe } else { &["absent"] };
            for m in fe {
                for pw in fe {
                    for ix in index_opts {
                        for pa in path_opts {
                            k += 1;
                            let tape = Prng::new(ctx.sub_seed("matrix", k)).bytes(1024);
                            let mut u = U::new(&tape);
                            let channel = if !cmd.has_channel() {
                                Channel::None
                            } else if k % 2 == 0 {
                                Channel::File
                            } else {
                                Channel::Stdin
                            };
                            let src = Sources { mnemonic: m.to_string(), password: pw.to_string(), index: ix.to_string(), path: pa.to_string() };
                            out.push(build_case(&mut u, cmd, channel, Some((kind, src))));
                        }
                    }
                }
            }
        }
    }
    out
}

// ---------------------------------------------------------------- oracle

fn exec(inv: &Invocation, payload: &[u8]) -> Result<CliOut, String> {
    let cli = cli_path().ok_or_else(|| "no CLI path (ctx.cli / HDV_CLI)".to_string())?;
    let mut inv = inv.clone();
    let mut file = None;
    if inv.args.iter().any(|a| a == PLACEHOLDER) {
        let p = cli::temp_file(&root_path(), payload);
        let text = p.to_string_lossy().into_owned();
        for a in inv.args.iter_mut() {
            if a == PLACEHOLDER {
                *a = text.clone();
            }
        }
        file = Some(p);
    }
    let out = cli::run(&cli, &inv, TIMEOUT);
    if let Some(p) = file {
        let _ = std::fs::remove_file(p);
    }
    Ok(out)
}

fn show(inv: &Invocation) -> String {
    let env: Vec<String> = inv.env.iter().map(|(k, v)| format!("{k}={v:?}")).collect();
    format!("env [{}] argv {:?} stdin {} bytes", env.join(" "), inv.args, inv.stdin_hex.len() / 2)
}

enum Ran {
    Out(CliOut),
    /// watchdog expiry or spawn failure: recorded, the case is not judged
    Inconclusive,
}

fn run_checked(inv: &Invocation, payload: &[u8]) -> Result<Ran, crate::engine::Failure> {
    let out = match exec(inv, payload) {
        Ok(o) => o,
        Err(e) => {
            TIMEOUTS.lock().unwrap().push(e);
            return Ok(Ran::Inconclusive);
        }
    };
    if out.timed_out {
        TIMEOUTS.lock().unwrap().push(format!("watchdog/spawn: {} :: {}", show(inv), out.describe()));
        return Ok(Ran::Inconclusive);
    }
    Ok(Ran::Out(out))
}

/// The command must succeed and print exactly `want` followed by a newline.
fn expect_line(out: &CliOut, want: &str, inv: &Invocation, what: &str) -> Verdict {
    if out.panicked() {
        return fail(format!("exit 0, stdout {want:?}"), out.describe(), format!("{what}: the executable panicked; {}", show(inv)));
    }
    if !out.ok() {
        return fail(format!("exit 0, stdout {want:?}"), out.describe(), format!("{what}: the command failed; {}", show(inv)));
    }
    let got = out.stdout_str();
    if got != format!("{want}\n") {
        return fail(format!("{want}\\n"), format!("{got:?}"), format!("{what}; {}", show(inv)));
    }
    Ok(())
}

fn sig_text(s: &rfc6979::Sig) -> String {
    format!("0x{}{}{}", hex_lower(&s.r), hex_lower(&s.s), hex_lower(&[27 + u8::from(s.y_parity)]))
}

fn digest_of(cmd: Cmd, payload: &Payload) -> Result<[u8; 32], String> {
    match (cmd, payload) {
        (Cmd::SignMessage | Cmd::HashMessage, Payload::Bytes { .. }) => Ok(eip191(&payload.bytes())),
        (Cmd::HashData, Payload::Bytes { .. }) => Ok(keccak(&payload.bytes())),
        (Cmd::SignTx | Cmd::SignTxSigOnly | Cmd::HashTx, Payload::Tx(t)) => Ok(t.model.digest()),
        (Cmd::SignTypedData | Cmd::HashTypedData, Payload::Td(t)) => {
            td::expected(&t.model).map(|e| e.2).ok_or_else(|| "typed-data model does not conform to its own types".to_string())
        }
        (Cmd::HashTypedDataMsg, Payload::Td(t)) => {
            td::expected(&t.model).map(|e| e.1).ok_or_else(|| "typed-data model does not conform to its own types".to_string())
        }
        (Cmd::SignRaw, Payload::Digest { hex, .. }) => {
            unhex(hex).and_then(|d| <[u8; 32]>::try_from(d).ok()).ok_or_else(|| "digest is not 32 bytes of hex".to_string())
        }
        _ => Err(format!("payload does not fit command {}", cmd.name())),
    }
}

fn nfkd(s: &str) -> String {
    s.nfkd().collect()
}

fn bad(what: impl Into<String>) -> Verdict {
    fail("a well-formed C16 case", what, "bad replay case")
}

/// The twin run (flag-provided options moved to the environment and vice
/// versa) must give the same exit status and stdout as the first run.
/// Ok(false): not judged (watchdog).
fn judge_twin(c: &Case, out: &CliOut, payload_bytes: &[u8], cls: &mut Classifier) -> Result<bool, crate::engine::Failure> {
    let Some(twin) = &c.twin else { return Ok(true) };
    cls.evals(1);
    match run_checked(twin, payload_bytes)? {
        Ran::Inconclusive => Ok(false),
        Ran::Out(t) => {
            if t.code != out.code || t.signal != out.signal || t.stdout != out.stdout {
                return Err(crate::engine::Failure {
                    expected: format!("code={:?} stdout={:?}", out.code, out.stdout_str()),
                    observed: format!("code={:?} stdout={:?} stderr={:?}", t.code, t.stdout_str(), crate::engine::truncate(&t.stderr_str(), 300)),
                    note: format!(
                        "the same configuration with flags and environment variables swapped gives another result; first: {} ; second: {}",
                        show(&c.run),
                        show(twin)
                    ),
                    known: None,
                });
            }
            cls.label("twin-flag-env-swapped");
            Ok(true)
        }
    }
}

fn judge(c: &Case, cls: &mut Classifier) -> Verdict {
    // ---- model sanity (matters for hand-written replay files)
    let Some(entropy) = unhex(&c.entropy_hex) else { return bad("entropy_hex") };
    if !matches!(entropy.len(), 16 | 20 | 24 | 28 | 32) {
        return bad("entropy length");
    }
    if bip39::encode_phrase(&entropy) != c.phrase {
        return bad("phrase is not the reference encoding of entropy_hex");
    }
    if c.passphrase.contains('\0') {
        return bad("NUL in passphrase cannot be passed to a process");
    }
    if c.cmd.has_channel() != (c.channel != Channel::None) {
        return bad("channel does not fit the command");
    }
    let cell = format!("cell:{}/{}", c.cmd.name(), c.channel.name());
    let payload_bytes = c.payload.bytes();

    // ---- the digest the command works on
    let digest = if c.cmd.is_sign() || !c.cmd.needs_account() {
        match digest_of(c.cmd, &c.payload) {
            Ok(d) => Some(d),
            Err(e) => return bad(e),
        }
    } else {
        None
    };

    // ---- main run
    let out = match run_checked(&c.run, &payload_bytes)? {
        Ran::Out(o) => o,
        Ran::Inconclusive => return Ok(()),
    };

    // ---- hash commands: no account involved
    if !c.cmd.needs_account() {
        let want = hex0x(&digest.expect("hash commands have a digest"));
        expect_line(&out, &want, &c.run, &format!("`{}` must print the reference digest", c.cmd.name()))?;
        cls.label(&cell);
        if !payload_bytes.is_empty() {
            cls.nontrivial(&(c.cmd.name(), c.channel.name(), &payload_bytes));
        }
        cls.sample(&cell, || json!({"argv": c.run.args, "stdin_bytes": c.run.stdin_hex.len() / 2, "stdout": want}));
        label_payload(c, cls);
        return Ok(());
    }

    // ---- selector
    let path: Vec<Step> = match &c.selector {
        Selector::Default => bip32::default_path(0),
        Selector::Index(i) => bip32::default_path(*i),
        Selector::Path(p) => p.clone(),
        Selector::Both { .. } => {
            // the two selectors cannot be combined: an ordinary error, nothing printed
            if out.panicked() {
                return fail("ordinary error, empty stdout", out.describe(), format!("both selectors given: the executable panicked; {}", show(&c.run)));
            }
            if out.ok() || !out.ordinary_error() || !out.stdout.is_empty() {
                return fail(
                    "error exit with empty stdout",
                    out.describe(),
                    format!("--account-index and --hd-path were both given and must be refused; {}", show(&c.run)),
                );
            }
            if !judge_twin(c, &out, &payload_bytes, cls)? {
                return Ok(());
            }
            cls.label("sel:both-refused");
            cls.label(&format!("both:index={}/path={}", c.sources.index.trim_end_matches('='), c.sources.path.trim_end_matches('=')));
            cls.label("account-case");
            cls.label(&cell);
            cls.nontrivial(&(c.cmd.name(), &c.run.args, &c.run.env));
            cls.sample("sel:both-refused", || json!({"argv": c.run.args, "env": c.run.env, "exit": out.code}));
            return Ok(());
        }
    };
    if path.iter().any(|s| s.index >= 0x8000_0000) {
        return bad("path component >= 2^31 (C14's subject)");
    }

    // ---- reference key chain
    let norm = nfkd(&c.passphrase);
    let seed = bip39::seed_from_normalised(&c.phrase, &norm);
    let key = match bip32::derive(&seed, &path) {
        Ok(k) => k,
        Err(_) => {
            // BIP-32 declares the step invalid (probability ~2^-127): only "no panic" is required
            cls.unspecified("bip32-invalid-step");
            if out.panicked() {
                return fail("result or ordinary error", out.describe(), format!("panic; {}", show(&c.run)));
            }
            return Ok(());
        }
    };
    let Some(public) = secp::mul_g(&key) else { return bad("reference key invalid") };

    let mut parity_label = None;
    let want: String = match c.cmd {
        Cmd::Address => eip55(&address_of(&public)),
        Cmd::Export => hex0x(&key),
        Cmd::PublicKey => hex0x(&secp::uncompressed(&public)),
        _ => {
            let d = digest.expect("sign commands have a digest");
            let sig = rfc6979::sign(&key, &d);
            parity_label = Some(sig.y_parity);
            if c.cmd == Cmd::SignTx {
                let Payload::Tx(t) = &c.payload else { return bad("payload") };
                match t.model.signed_payload(&sig.r, &sig.s, sig.y_parity) {
                    Some(p) => hex0x(&p),
                    None => return bad("v does not fit 256 bits (C11's subject)"),
                }
            } else {
                sig_text(&sig)
            }
        }
    };

    // ---- judge the main run
    let what = format!(
        "`{}` for {}-word mnemonic, passphrase {:?}, key at {}",
        c.cmd.name(),
        entropy.len() * 3 / 4,
        c.passphrase,
        bip32::render(&path)
    );
    let mut raw_unspecified = false;
    if let (Cmd::SignRaw, Payload::Digest { spelling, .. }) = (c.cmd, &c.payload) {
        let d = digest.expect("raw digest");
        let below_n = secp::cmp(&d, &secp::N) == Ordering::Less;
        cls.label(&format!("raw:{spelling}"));
        if !below_n {
            cls.label("raw:digest>=n");
        }
        if spelling != "0x-lower" {
            // the property does not decide these spellings: refused, or the same digest
            raw_unspecified = true;
            cls.unspecified(&format!("sign raw digest spelled {spelling}"));
        }
        if out.panicked() {
            return fail("signature or ordinary error", out.describe(), format!("{what}: panic; {}", show(&c.run)));
        }
        if raw_unspecified && !out.ok() {
            if !out.ordinary_error() || !out.stdout.is_empty() {
                return fail("ordinary error with empty stdout", out.describe(), format!("{what}; {}", show(&c.run)));
            }
            cls.label("raw:unspecified-spelling-refused");
        } else if below_n {
            expect_line(&out, &want, &c.run, &format!("{what}: reference RFC 6979 signature over the digest as given"))?;
        } else {
            // digests >= n: RFC 6979 equality is not claimed (see C05); the signature must
            // be a low-s signature of the selected key over exactly this digest
            judge_sig_by_recovery(&out, &d, &public, &c.run, &what)?;
        }
    } else {
        expect_line(&out, &want, &c.run, &what)?;
    }

    // ---- flag <-> environment twin: identical observable result
    if !judge_twin(c, &out, &payload_bytes, cls)? {
        return Ok(());
    }

    // ---- the matching hash command prints the digest that was signed
    if let (Some(h), Some(d)) = (&c.hash_run, digest) {
        cls.evals(1);
        match run_checked(h, &payload_bytes)? {
            Ran::Inconclusive => return Ok(()),
            Ran::Out(o) => {
                expect_line(&o, &hex0x(&d), h, &format!("the matching hash command of `{}` must print the digest that was signed", c.cmd.name()))?;
                cls.label(if h.args.iter().any(|a| a == "-") { "hash-run:stdin" } else { "hash-run:file" });
            }
        }
    }

    // ---- classification
    cls.label("account-case");
    cls.label(&cell);
    cls.label(&format!("words-{}", entropy.len() * 3 / 4));
    match &c.selector {
        Selector::Default => cls.label("sel:default"),
        Selector::Index(i) => {
            cls.label("sel:index");
            cls.label(match *i {
                0 => "index=0",
                1 | 2 => "index=1|2",
                0x7fff_ffff => "index=2^31-1",
                x if x < 100 => "index<100",
                _ => "index-large",
            });
        }
        Selector::Path(p) => {
            cls.label("sel:path");
            if p.len() == 5 && p[..4] == bip32::default_path(0)[..4] && !p[4].hardened {
                cls.label("path=default-shape");
            }
            if p.iter().any(|s| s.index == 0x7fff_ffff) {
                cls.label("path-has-2^31-1");
            }
        }
        Selector::Both { .. } => {}
    }
    if c.passphrase.is_empty() {
        cls.label("pass:empty");
        if c.sources.password != "absent" {
            cls.label("pass:empty-but-explicit");
        }
    } else if c.passphrase.is_ascii() {
        cls.label("pass:ascii");
    } else {
        cls.label("pass:non-ascii");
        if norm != c.passphrase {
            cls.label("pass:nfkd-changes-it");
        }
    }
    let mut any_env = false;
    for (name, how) in [("mnemonic", &c.sources.mnemonic), ("password", &c.sources.password), ("index", &c.sources.index), ("path", &c.sources.path)] {
        if how != "absent" {
            cls.label(&format!("src:{name}={}", how.trim_end_matches('=')));
        }
        any_env |= how == "env";
    }
    if any_env {
        cls.label("src:any-env");
    }
    if let Some(p) = parity_label {
        cls.label(if p { "sig-parity-1" } else { "sig-parity-0" });
    }
    label_payload(c, cls);
    let trivial = matches!(c.selector, Selector::Default | Selector::Index(0)) && c.passphrase.is_empty() && !any_env;
    if !trivial {
        cls.nontrivial(&(c.cmd.name(), &c.run.args, &c.run.env, &c.run.stdin_hex, &payload_bytes));
        cls.sample(&cell, || json!({"argv": c.run.args, "env": c.run.env, "stdin_bytes": c.run.stdin_hex.len() / 2, "path": bip32::render(&path), "stdout": want}));
    } else {
        cls.label("trivial-configuration");
    }
    Ok(())
}

fn label_payload(c: &Case, cls: &mut Classifier) {
    match &c.payload {
        Payload::Bytes { .. } => {
            let b = c.payload.bytes();
            if b.is_empty() {
                cls.label("bytes:empty");
            } else if std::str::from_utf8(&b).is_err() {
                cls.label("bytes:non-utf8");
            }
            if b.last() == Some(&b'\n') {
                cls.label("bytes:trailing-newline");
            }
        }
        Payload::Tx(t) => {
            cls.label(match (t.model.kind, t.model.chain_id.is_some()) {
                (Kind::Legacy, false) => "tx:legacy-no-chain",
                (Kind::Legacy, true) => "tx:legacy-chain",
                (Kind::Eip2930, _) => "tx:eip2930",
                (Kind::Eip1559, _) => "tx:eip1559",
            });
        }
        Payload::Td(t) => {
            let prim = t.model.graph.get(&t.model.primary);
            if prim.map(|d| d.members.iter().any(|(_, ty)| matches!(ty, Ty::Struct(_)))).unwrap_or(false) {
                cls.label("td:nested-struct");
            }
            if prim.map(|d| d.members.iter().any(|(_, ty)| ty.is_array())).unwrap_or(false) {
                cls.label("td:array");
            }
        }
        _ => {}
    }
}

/// For digests >= n: parse the printed signature and require that it is a
/// low-s signature from which the selected account's public key is recovered.
fn judge_sig_by_recovery(out: &CliOut, digest: &[u8; 32], public: &secp::Point, inv: &Invocation, what: &str) -> Verdict {
    if !out.ok() {
        return fail("exit 0 and a signature", out.describe(), format!("{what}: the command failed; {}", show(inv)));
    }
    let text = out.stdout_str();
    let parsed = text
        .strip_suffix('\n')
        .and_then(|t| t.strip_prefix("0x"))
        .filter(|h| h.len() == 130 && h.bytes().all(|b| b.is_ascii_digit() || (b'a'..=b'f').contains(&b)))
        .and_then(unhex);
    let Some(raw) = parsed else {
        return fail("0x + 130 lower-case hex digits + newline", format!("{text:?}"), format!("{what}: signature text; {}", show(inv)));
    };
    let r: [u8; 32] = raw[..32].try_into().unwrap();
    let s: [u8; 32] = raw[32..64].try_into().unwrap();
    let v = raw[64];
    if v != 27 && v != 28 {
        return fail("v of 27 or 28", v.to_string(), format!("{what}; {}", show(inv)));
    }
    if secp::is_zero(&s) || secp::cmp(&s, &secp::HALF_N) == Ordering::Greater {
        return fail("1 <= s <= n/2", hex_lower(&s), format!("{what}; {}", show(inv)));
    }
    match secp::ecdsa_recover(digest, &r, &s, v == 28) {
        Some(q) if q == *public => Ok(()),
        other => fail(
            hex_lower(&secp::uncompressed(public)),
            format!("{:?}", other.map(|q| hex_lower(&secp::uncompressed(&q)))),
            format!("{what}: the key recovered from the printed signature over the given digest is not the selected account's; {}", show(inv)),
        ),
    }
}

// ---------------------------------------------------------------- run / replay

fn drain_timeouts(ctx: &mut Ctx) {
    let notes: Vec<String> = std::mem::take(&mut *TIMEOUTS.lock().unwrap());
    for (i, n) in notes.iter().enumerate() {
        if i < 5 {
            ctx.inconclusive(format!("C16 run not judged: {}", crate::engine::truncate(n, 600)));
        }
    }
    if notes.len() > 5 {
        ctx.inconclusive(format!("C16: {} further runs not judged (watchdog/spawn)", notes.len() - 5));
    }
}

pub fn run(ctx: &mut Ctx) {
    set_statics(ctx);
    ctx.rule = "One case = (mnemonic of 12/15/18/21/24 words from uniform or all-0/all-1 entropy) x (passphrase: empty, ASCII incl. leading dash/blank/newline, non-ASCII from an NFKD-sensitive pool or random scalars of 13 Unicode ranges) x (selector: none, --account-index i with i in {0,1,2,2^31-1,2^31-2,<100,uniform 31-bit}, --hd-path of depth 1..8 from the C03/C14 valid-path generator or the default path spelled out, or both selectors) x (each of the four options independently as `--opt V`, `--opt=V`, `-m V` or environment variable MNEMONIC/PASSWORD/ACCOUNT_INDEX/HD_PATH; option order permuted) x (subcommand: address, export, public-key, sign message|transaction|transaction --signature-only|typeddata|raw, hash data|message|transaction|typeddata|typeddata --message-hash) x (payload by file path, `-` = stdin, or the path /dev/stdin) x payload (bytes incl. empty/non-UTF-8/trailing newline/8 KiB..100 KB inputs that exceed one read chunk or pipe buffer; transactions of all kinds from the C06 generator, legacy-without-chain-id signed with --allow-missing-relay-protection; simple EIP-712 documents: one struct of atomic members, at most one nested struct and one array, any of the 31 domains; raw digests from the C05 digest strategy spelled 0x-lower (decided) or bare/upper-case (unspecified)). Oracle: the reference stack end to end (bit-string BIP-39 -> written-out PBKDF2 over NFKD(passphrase) -> BIP-32 on the harness's own secp256k1 -> EIP-55 / 0x secret / 0x04||X||Y; RFC 6979 reference signature over the reference EIP-191 / transaction / EIP-712 digest or the raw digest as given; signed-transaction bytes from the reference RLP model); stdout must be exactly that line plus newline with exit 0. Every `sign message|transaction|typeddata` case also runs the matching `hash` command on the same payload (independent channel), which must print the digest that was signed; `hash data` = Keccak-256 of the bytes; `--message-hash` = reference hashStruct(message). A third of the account cases re-run the configuration with every flag-provided option moved to the environment and vice versa: exit status and stdout must be identical. Both selectors (any flag/env combination): error exit, empty stdout. Before the generated cases an exhaustive matrix runs every account subcommand x selector kind (none/index/path/both) x flag-or-environment for each given option with a non-empty passphrase and index != 0 (288 configurations). Non-trivial: account case with index != 0 or a path or a passphrase or an environment-provided option (distinct by argv+env+stdin), or a hash case with a non-empty payload (distinct by command, channel, payload).".into();
    ctx.assumptions = vec![
        "hmac/sha2/sha3 primitives are correct; NFKD of the passphrase is taken from the unicode-normalization crate (its use by hdwallet is C02's subject)".into(),
        "three account cases in four pass the phrase in canonical single-space form, one in four in another ASCII white-space layout (double blanks, tabs, line ends, blanks at the ends)".into(),
        "transaction and typed-data payloads are well-formed documents without the spellings/graphs of D7-D12 (those are C08/C09/C13's subject)".into(),
        "raw digests >= n: equality with the RFC 6979 reference is not claimed; the printed signature must recover the selected account's key over that digest".into(),
        "a flag and an environment variable for the same option at once (precedence) is not decided by the property and is not generated".into(),
    ];
    ctx.replay_known_and_regressions(&replay);
    drain_timeouts(ctx);
    match cli_path() {
        Some(p) if p.is_file() => {}
        other => {
            ctx.inconclusive(format!("hdwallet executable not available: {other:?}"));
            return;
        }
    }

    // exhaustive matrix first (same in both tiers)
    let matrix = matrix_cases(ctx);
    ctx.run_cases("matrix", &matrix, judge);
    ctx.exhaustive_parts.push(format!(
        "8 account subcommands x selector kind (none, index, path, both) x flag-or-environment for each given option ({} configurations, filler seeded)",
        matrix.len()
    ));
    drain_timeouts(ctx);
    // inputs beyond any round-number cap a reader might have (1 MiB, 16 MiB, 64 MiB): one size in quick, more in thorough
    let sizes: &[usize] = if ctx.tier == crate::engine::Tier::Thorough { &[(1 << 20) + 1, (1 << 24) + 1, (1 << 26) - 1, (1 << 26) + 1, (1 << 27) + 3] } else { &[(1 << 26) + 1] };
    let huge: Vec<HugeCase> = sizes.iter().flat_map(|n| [true, false].map(|stdin| HugeCase { len: *n, seed: ctx.sub_seed("huge", *n as u64), stdin })).collect();
    ctx.run_cases("huge-input", &huge, judge_huge);
    drain_timeouts(ctx);
    // at a terminal: the commands without an input file
    let term: Vec<Case> = matrix.iter().filter(|c| matches!(c.cmd, Cmd::Address | Cmd::Export | Cmd::PublicKey | Cmd::SignRaw)).step_by(ctx.tier.pick(4, 1)).cloned().collect();
    ctx.run_cases("terminal", &term, judge_terminal);
    if ctx.cls.count("tty-not-available-or-timeout") > 0 {
        ctx.inconclusive(format!("{} terminal runs could not be made", ctx.cls.count("tty-not-available-or-timeout")));
    }

    let n: u32 = ctx.tier.pick(4000, 60_000);
    ctx.run_prop("cli", n, || crate::gen::tape(1024).prop_map(gen_case), judge);
    drain_timeouts(ctx);

    // ---- generator health
    let acct = ctx.cls.count("account-case");
    let min_cell = ctx.tier.pick(4, 100);
    for (cmd, ch) in all_cells() {
        ctx.floor_abs(&format!("cell:{}/{}", cmd.name(), ch.name()), min_cell);
    }
    for l in bip39::LENGTHS {
        ctx.floor(&format!("words-{l}"), acct, 0.08);
    }
    ctx.floor("sel:default", acct, 0.08);
    ctx.floor("sel:index", acct, 0.15);
    ctx.floor("sel:path", acct, 0.2);
    ctx.floor("sel:both-refused", acct, 0.04);
    ctx.floor("index=2^31-1", acct, 0.02);
    ctx.floor("index-large", acct, 0.03);
    ctx.floor("path=default-shape", acct, 0.02);
    ctx.floor("pass:ascii", acct, 0.15);
    ctx.floor("pass:non-ascii", acct, 0.15);
    ctx.floor("pass:nfkd-changes-it", acct, 0.05);
    ctx.floor("src:mnemonic=env", acct, 0.2);
    ctx.floor("src:mnemonic=short", acct, 0.08);
    ctx.floor("src:password=env", acct, 0.1);
    ctx.floor("src:password=long", acct, 0.1);
    ctx.floor("src:index=env", acct, 0.03);
    ctx.floor("src:path=env", acct, 0.04);
    ctx.floor("twin-flag-env-swapped", acct, 0.2);
    ctx.floor("sig-parity-0", acct, 0.1);
    ctx.floor("sig-parity-1", acct, 0.1);
    ctx.floor_abs("raw:0x-lower", ctx.tier.pick(10, 300));
    ctx.floor_abs("hash-run:file", ctx.tier.pick(20, 600));
    ctx.floor_abs("hash-run:stdin", ctx.tier.pick(20, 600));
    ctx.floor_abs("tx:legacy-no-chain", ctx.tier.pick(5, 150));
    ctx.floor_abs("tx:eip1559", ctx.tier.pick(5, 150));
    ctx.floor_abs("td:nested-struct", ctx.tier.pick(10, 300));
    ctx.floor_abs("bytes:non-utf8", ctx.tier.pick(10, 300));
}

/// Commands that take no input file, with a pseudo-terminal as standard output (where a user normally sees them):
/// exactly what they print into a pipe.
fn judge_terminal(c: &Case, cls: &mut Classifier) -> Verdict {
    let Some(exe) = cli_path() else { return fail("cli", "not configured", "CLI not available") };
    let args: Vec<&str> = c.run.args.iter().map(String::as_str).collect();
    let os: Vec<std::ffi::OsString> = c.run.args.iter().map(std::ffi::OsString::from).collect();
    let piped = std::env::var_os("HDV_NO_AMBIENT");
    let _ = piped;
    let pipe = crate::cli::run_raw(&exe, &os, &c.run.env, &[], Duration::from_secs(60));
    if pipe.timed_out {
        return Ok(());
    }
    let Some(tty) = crate::cli::run_tty_env(&exe, &args, &c.run.env, &[], false, true) else {
        cls.label("tty-not-available-or-timeout");
        return Ok(());
    };
    if (tty.code, &tty.stdout) != (pipe.code, &pipe.stdout) {
        return fail(format!("as into a pipe: {}", pipe.describe()), tty.describe(), format!("standard output is a terminal; {}", show(&c.run)));
    }
    cls.label("terminal");
    cls.nontrivial(&("tty", &c.run.args, &c.run.env));
    Ok(())
}

/// `hash data` of a very large input (given by recipe, not stored): Keccak-256 of ALL of it, by file and stdin.
#[derive(Clone, Debug, Serialize, Deserialize)]
pub struct HugeCase {
    pub len: usize,
    pub seed: u64,
    pub stdin: bool,
}

fn judge_huge(c: &HugeCase, cls: &mut Classifier) -> Verdict {
    let data = Prng::new(c.seed).bytes(c.len);
    let want = format!("0x{}\n", hex_lower(&keccak(&data)));
    let root = root_path();
    let Some(exe) = cli_path() else { return fail("cli", "not configured", "CLI not available") };
    let (inv, file) = if c.stdin {
        (Invocation::new(&["hash", "data", "-"]), None)
    } else {
        let f = crate::cli::temp_file(&root, &data);
        (Invocation::new(&["hash", "data", &f.to_string_lossy()]), Some(f))
    };
    let args: Vec<std::ffi::OsString> = inv.args.iter().map(std::ffi::OsString::from).collect();
    let out = crate::cli::run_raw(&exe, &args, &[], if c.stdin { &data } else { &[] }, std::time::Duration::from_secs(120));
    if let Some(f) = file {
        let _ = std::fs::remove_file(f);
    }
    if out.timed_out {
        TIMEOUTS.lock().unwrap().push(format!("hash data on {} bytes", c.len));
        return Ok(());
    }
    if !out.ok() || out.stdout_str() != want {
        return fail(want, out.describe(), format!("`hdwallet {}` on {} bytes ({}): Keccak-256 of the whole input", inv.args[..2].join(" "), c.len, if c.stdin { "stdin" } else { "file" }));
    }
    cls.label("huge-input");
    cls.nontrivial(&(c.len, c.seed, c.stdin));
    Ok(())
}

pub fn replay(sub: &str, case: &Value) -> Option<Verdict> {
    match sub {
        "huge-input" => Some(replay_as::<HugeCase>(case, judge_huge)),
        "terminal" => Some(replay_as::<Case>(case, judge_terminal)),
        "cli" | "matrix" => Some(replay_as::<Case>(case, judge)),
        _ => None,
    }
}

/// Replay entry used by props/mod.rs (fills the CLI path and root from the context).
pub fn replay_ctx(sub: &str, case: &Value, ctx: &Ctx) -> Option<Verdict> {
    set_statics(ctx);
    let r = replay(sub, case);
    for n in std::mem::take(&mut *TIMEOUTS.lock().unwrap()) {
        println!("INCONCLUSIVE property=C16 run not judged: {}", crate::engine::truncate(&n, 600));
    }
    r
}
