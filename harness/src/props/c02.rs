//! C02 — wallet seed is the BIP-39 PBKDF2 stretch of phrase and passphrase.

use crate::engine::{catch, fail, replay_as, Classifier, Ctx, Verdict};
use crate::gen::U;
use crate::refimpl::nfkd_pairs::{hangul_decompose, NON_EQUIVALENT, PAIRS};
use crate::refimpl::{bip39, hex_lower};
use hdwallet::mnemonic::Mnemonic;
use proptest::prelude::*;
use serde::{Deserialize, Serialize};
use serde_json::{json, Value};
use unicode_normalization::UnicodeNormalization;

#[derive(Clone, Debug, Serialize, Deserialize)]
pub struct Case {
    /// phrase text as given to the parser (arbitrary ASCII white-space layout)
    pub phrase: String,
    pub passphrase: String,
    /// a second layout of the same words
    pub phrase2: String,
}

#[derive(Clone, Debug, Serialize, Deserialize)]
pub struct PairCase {
    pub phrase: String,
    pub label: String,
    pub a: String,
    /// hand-decomposed NFKD form of `a` (None for non-equivalence cases)
    pub nfkd: Option<String>,
    /// for non-equivalence: the other string
    pub b: Option<String>,
}

fn seed_of(phrase: &str, pass: &str) -> Result<Result<[u8; 64], String>, String> {
    catch(|| Mnemonic::from_phrase(phrase).map(|m| *m.seed(pass)).map_err(|e| e.to_string()))
}

fn escape(s: &str) -> String {
    s.chars().map(|c| if c.is_ascii_graphic() || c == ' ' { c.to_string() } else { format!("\\u{{{:x}}}", c as u32) }).collect()
}

const WS: [&str; 6] = [" ", "  ", "\t", "\n", "\r\n", " \n "];

fn relayout(words: &[&str], u: &mut U) -> String {
    let mut s = String::new();
    if u.ratio(1, 4) {
        s.push_str(WS[u.below(WS.len())]);
    }
    for (i, w) in words.iter().enumerate() {
        if i > 0 {
            s.push_str(if u.ratio(2, 3) { " " } else { WS[u.below(WS.len())] });
        }
        s.push_str(w);
    }
    if u.ratio(1, 4) {
        s.push_str(WS[u.below(WS.len())]);
    }
    s
}

const POOLS: [&[char]; 8] = [
    &['a', 'Z', '0', ' ', '!', '~', 'p', 'w'],
    &['\u{e9}', '\u{fc}', '\u{f1}', '\u{c5}', '\u{1e69}', '\u{1d6}', '\u{1ea5}'],
    &['e', '\u{301}', '\u{323}', '\u{308}', 'a', '\u{328}', '\u{31b}', 'o'],
    &['\u{ff21}', '\u{ff41}', '\u{ff11}', '\u{ff01}', '\u{3000}'],
    &['\u{fb01}', '\u{2126}', '\u{212b}', '\u{b2}', '\u{bd}', '\u{2122}', '\u{b5}', '\u{17f}'],
    &['\u{ac00}', '\u{d55c}', '\u{d7a3}', '\u{1100}', '\u{1161}'],
    &['\u{f900}', '\u{2f800}', '\u{4e3d}', '\u{3042}', '\u{304c}', '\u{30d1}'],
    &['\u{1d400}', '\u{1d7d8}', '\u{1f600}', '\u{200d}', '\u{fe0f}', '\u{1f468}', '\u{1f4a9}'],
];

fn gen_pass(u: &mut U) -> (String, &'static str) {
    if u.ratio(1, 25) {
        // long passphrases (beyond any plausible fixed-size salt buffer: 120..2000 scalars)
        let n = [120usize, 128, 129, 247, 248, 249, 255, 256, 257, 1000, 2000][u.below(11)];
        let pool = POOLS[u.below(POOLS.len())];
        let ascii = u.bool();
        return ((0..n).map(|i| if ascii { (b'a' + (i % 26) as u8) as char } else { pool[(i * 7 + n) % pool.len()] }).collect(), "long");
    }
    if u.ratio(1, 25) {
        // long runs of combining marks (Zalgo-like): 29..=33 and 40..100 marks on one base letter
        let n = [29usize, 30, 31, 32, 33, 40, 64, 100][u.below(8)];
        let marks = ['\u{301}', '\u{308}', '\u{323}', '\u{300}', '\u{327}'];
        let same = u.bool();
        let mut s = String::from("p");
        s.push(['e', 'a', '\u{e9}'][u.below(3)]);
        for i in 0..n {
            s.push(if same { marks[0] } else { marks[i % marks.len()] });
        }
        s.push('z');
        return (s, "combining-run");
    }
    match u.below(12) {
        0 => (String::new(), "empty"),
        1 => ("TREZOR".into(), "ascii"),
        2 => {
            let n = u.range(1, 24);
            ((0..n).map(|_| (0x20 + u.below(0x5f) as u8) as char).collect(), "ascii")
        }
        3..=9 => {
            let pool = POOLS[u.below(POOLS.len())];
            let n = u.range(1, 12);
            ((0..n).map(|_| pool[u.below(pool.len())]).collect(), "unicode-class")
        }
        10 => {
            let n = u.range(1, 16);
            (
                (0..n)
                    .map(|_| {
                        let p = POOLS[u.below(POOLS.len())];
                        p[u.below(p.len())]
                    })
                    .collect(),
                "unicode-mixed",
            )
        }
        _ => {
            // arbitrary scalar values
            let n = u.range(1, 64);
            (
                (0..n)
                    .map(|_| {
                        let v = match u.below(4) {
                            0 => u.below(0x80) as u32,
                            1 => u.below(0x3000) as u32,
                            2 => u.below(0x1_0000) as u32,
                            _ => u.below(0x11_0000) as u32,
                        };
                        char::from_u32(v).unwrap_or('\u{fffd}')
                    })
                    .collect(),
                "arbitrary-chars",
            )
        }
    }
}

fn gen_case(tape: Vec<u8>) -> Case {
    let mut u = U::new(&tape);
    let n = [16usize, 20, 24, 28, 32][u.below(5)];
    let e = if u.ratio(1, 12) {
        // mnemonics made of the longest / shortest words of the list (phrase length extremes)
        let long = u.ratio(2, 3);
        bip39::entropy_with_word_lengths(n * 3 / 4, long, |k| u.below(k))
    } else {
        u.bytes(n)
    };
    let words = bip39::encode_words(&e);
    let phrase = relayout(&words, &mut u);
    let phrase2 = relayout(&words, &mut u);
    let (passphrase, _) = gen_pass(&mut u);
    Case { phrase, passphrase, phrase2 }
}

fn judge(c: &Case, cls: &mut Classifier) -> Verdict {
    let Ok(entropy) = bip39::decode_phrase(&c.phrase) else {
        return fail("valid phrase", c.phrase.clone(), "C02 case must hold a valid phrase");
    };
    let canonical = bip39::encode_phrase(&entropy);
    let normalised: String = c.passphrase.nfkd().collect();
    let want = bip39::seed_from_normalised(&canonical, &normalised);
    let ctxs = format!("phrase {:?} passphrase \"{}\"", c.phrase, escape(&c.passphrase));
    let got = match seed_of(&c.phrase, &c.passphrase) {
        Ok(Ok(s)) => s,
        Ok(Err(e)) => return fail("seed", format!("Err({e})"), format!("valid phrase refused; {ctxs}")),
        Err(p) => return fail("seed", p, format!("seed computation panicked; {ctxs}")),
    };
    if got != want {
        return fail(hex_lower(&want), hex_lower(&got), format!("seed = PBKDF2-HMAC-SHA512(canonical phrase, 'mnemonic'+NFKD(passphrase), 2048, 64); {ctxs}"));
    }
    if bip39::decode_phrase(&c.phrase2) == Ok(entropy.clone()) && c.phrase2 != c.phrase {
        match seed_of(&c.phrase2, &c.passphrase) {
            Ok(Ok(s)) if s == got => cls.label("layout-pair"),
            other => return fail(hex_lower(&got), format!("{other:?}"), format!("same words in another white-space layout give another seed: {:?} vs {:?}", c.phrase, c.phrase2)),
        }
    }
    let words = bip39::split_ascii_ws(&c.phrase).len();
    cls.label(&format!("words-{words}"));
    if normalised != c.passphrase {
        cls.label("passphrase-changed-by-nfkd");
    }
    if c.passphrase.chars().any(|ch| ch as u32 > 0xffff) {
        cls.label("astral");
    }
    if c.passphrase.is_empty() {
        cls.label("empty-passphrase");
    }
    if c.passphrase.chars().count() >= 120 {
        cls.label("long-passphrase");
    }
    {
        let mut run = 0usize;
        let mut max_run = 0usize;
        for ch in normalised.chars() {
            if unicode_normalization::char::is_combining_mark(ch) {
                run += 1;
                max_run = max_run.max(run);
            } else {
                run = 0;
            }
        }
        if max_run >= 31 {
            cls.label("combining-run>=31");
        }
    }
    if canonical.len() > 192 {
        cls.label("phrase-longer-than-192-bytes");
    }
    if words == 24 && canonical.len() < 24 * 4 + 23 {
        cls.label("phrase-of-shortest-words");
    }
    if (!c.passphrase.is_empty() && c.passphrase != "TREZOR") || !matches!(words, 12 | 24) {
        cls.nontrivial(&(canonical.as_str(), normalised.as_str()));
        cls.sample(if normalised != c.passphrase { "nfkd-active" } else { "nfkd-inert" }, || {
            json!({"phrase": c.phrase, "passphrase": escape(&c.passphrase), "seed": hex_lower(&got)})
        });
    }
    Ok(())
}

// ---------------------------------------------------------------- histories

/// Several wallets stretched one after the other on one thread. "The seed depends only on the words and the
/// normalised passphrase" also means: not on what was computed before. The wallets of a history are related
/// so that careless keys of a cache collide: entropy||salt and phrase||passphrase concatenations that coincide
/// for different (mnemonic, passphrase) pairs, the same passphrase under several mnemonics, the same mnemonic
/// under several passphrases, and plain repeats.
#[derive(Clone, Debug, Serialize, Deserialize)]
pub struct HistCase {
    pub family: String,
    /// (phrase, passphrase) in call order
    pub steps: Vec<(String, String)>,
}

fn ascii_pass(u: &mut U, max: usize) -> String {
    let n = u.below(max + 1);
    (0..n).map(|_| (0x21 + u.below(0x5e) as u8) as char).collect()
}

/// entropy of `n2` bytes whose first `w1` words are the phrase of `e1`
fn extend_entropy(e1: &[u8], n2: usize, u: &mut U) -> Vec<u8> {
    let idx = bip39::encode_indices(e1);
    let mut bits: Vec<bool> = vec![];
    for i in &idx {
        for b in (0..11).rev() {
            bits.push((i >> b) & 1 == 1);
        }
    }
    while bits.len() < n2 * 8 {
        bits.push(u.bool());
    }
    (0..n2).map(|k| (0..8).fold(0u8, |a, b| (a << 1) | bits[k * 8 + b] as u8)).collect()
}

fn gen_history(tape: Vec<u8>) -> HistCase {
    let mut u = U::new(&tape);
    let sizes = [16usize, 20, 24, 28, 32];
    let fam = u.below(5);
    let mut steps: Vec<(String, String)> = vec![];
    let family = match fam {
        0 => {
            // entropy || "mnemonic" || passphrase coincide
            let combos = [(16usize, 24usize), (16, 28), (16, 32), (20, 28), (20, 32), (24, 32)];
            let (n1, n2) = combos[u.below(combos.len())];
            let mut e2 = u.bytes(n2);
            e2[n1..n1 + 8].copy_from_slice(b"mnemonic");
            for b in e2[n1 + 8..].iter_mut() {
                *b = 0x21 + (*b % 0x5e);
            }
            let p2 = ascii_pass(&mut u, 12);
            let p1 = format!("{}mnemonic{p2}", String::from_utf8(e2[n1 + 8..].to_vec()).expect("ascii"));
            steps.push((bip39::encode_phrase(&e2[..n1]), p1));
            steps.push((bip39::encode_phrase(&e2), p2));
            "entropy-salt-concatenation"
        }
        1 => {
            // phrase || passphrase coincide: the shorter phrase is a prefix of the longer one
            let i1 = u.below(4);
            let i2 = i1 + 1 + u.below(4 - i1);
            let e1 = u.bytes(sizes[i1]);
            let e2 = extend_entropy(&e1, sizes[i2], &mut u);
            let w1 = bip39::encode_words(&e1);
            let w2 = bip39::encode_words(&e2);
            assert_eq!(&w2[..w1.len()], &w1[..], "harness: prefix construction");
            let p2 = ascii_pass(&mut u, 12);
            let sep = if u.bool() { " " } else { "" };
            let p1 = format!(" {}{sep}{p2}", w2[w1.len()..].join(" "));
            let p1 = if sep.is_empty() { p1 } else { p1.trim_end().to_string() + &p2 };
            steps.push((w1.join(" "), p1));
            steps.push((w2.join(" "), p2));
            "phrase-passphrase-concatenation"
        }
        2 => {
            // the salt prefix inside the passphrase
            let k = sizes[u.below(5)];
            let e = u.bytes(k);
            let p = ascii_pass(&mut u, 10);
            let ph = bip39::encode_phrase(&e);
            steps.push((ph.clone(), p.clone()));
            steps.push((ph.clone(), format!("mnemonic{p}")));
            steps.push((ph, format!("mnemonicmnemonic{p}")));
            "salt-prefix-in-passphrase"
        }
        3 => {
            // same passphrase, several mnemonics (also of equal length and sharing leading words)
            let k = sizes[u.below(5)];
            let e = u.bytes(k);
            let mut e2 = e.clone();
            let k = e2.len() - 1 - u.below(4);
            e2[k] ^= 1 << u.below(8);
            let k3 = sizes[u.below(5)];
            let e3 = u.bytes(k3);
            let (p, _) = gen_pass(&mut u);
            for x in [&e, &e2, &e3] {
                steps.push((bip39::encode_phrase(x), p.clone()));
            }
            "same-passphrase"
        }
        _ => {
            // same mnemonic, several passphrases (a passphrase, a prefix of it, its NFKD-inequivalent neighbour)
            let k = sizes[u.below(5)];
            let e = u.bytes(k);
            let ph = bip39::encode_phrase(&e);
            let (p, _) = gen_pass(&mut u);
            let shorter: String = p.chars().take(p.chars().count() / 2).collect();
            steps.push((ph.clone(), p.clone()));
            steps.push((ph.clone(), shorter));
            steps.push((ph.clone(), format!("{p} ")));
            steps.push((ph, String::new()));
            "same-mnemonic"
        }
    };
    // order and repeats: a permutation of the related wallets followed by a revisit of earlier ones
    if u.bool() {
        steps.reverse();
    }
    let revisit = 1 + u.below(2);
    for _ in 0..revisit {
        let s = steps[u.below(steps.len())].clone();
        steps.push(s);
    }
    HistCase { family: family.to_string(), steps }
}

fn judge_history(c: &HistCase, cls: &mut Classifier) -> Verdict {
    let mut distinct = std::collections::BTreeSet::new();
    // prelude (result ignored): replaces whatever a single-slot memo holds from an earlier case on this thread
    let _ = seed_of("abandon abandon abandon abandon abandon abandon abandon abandon abandon abandon abandon about", "prelude");
    for (i, (phrase, pass)) in c.steps.iter().enumerate() {
        let Ok(entropy) = bip39::decode_phrase(phrase) else {
            return fail("valid phrase", phrase.clone(), "C02 history must hold valid phrases");
        };
        let canonical = bip39::encode_phrase(&entropy);
        let normalised: String = pass.nfkd().collect();
        let want = bip39::seed_from_normalised(&canonical, &normalised);
        let before: Vec<String> = c.steps[..i].iter().map(|(p, w)| format!("({} words, \"{}\")", bip39::split_ascii_ws(p).len(), escape(w))).collect();
        match seed_of(phrase, pass) {
            Ok(Ok(s)) if s == want => {}
            Ok(Ok(s)) => {
                return fail(
                    hex_lower(&want),
                    hex_lower(&s),
                    format!("step {i} of a {} history: seed of phrase {phrase:?} passphrase \"{}\" computed after {before:?} differs from PBKDF2 of its own words and passphrase", c.family, escape(pass)),
                )
            }
            Ok(Err(e)) => return fail("seed", format!("Err({e})"), format!("step {i}: valid phrase refused: {phrase:?}")),
            Err(p) => return fail("seed", p, format!("step {i}: seed computation panicked")),
        }
        distinct.insert((canonical, normalised));
    }
    cls.label(&format!("history/{}", c.family));
    if distinct.len() >= 2 && c.steps.len() > distinct.len() {
        cls.label("history-with-revisit");
    }
    if distinct.len() >= 2 {
        cls.nontrivial(&c.steps);
        cls.sample(&format!("history-{}", c.family), || json!({"family": c.family, "steps": c.steps.iter().map(|(p, w)| json!([p, escape(w)])).collect::<Vec<_>>()}));
    }
    Ok(())
}

/// NFKD-equivalence / non-equivalence against the hand-written table (independent of unicode-normalization).
fn judge_pair(c: &PairCase, cls: &mut Classifier) -> Verdict {
    let Ok(entropy) = bip39::decode_phrase(&c.phrase) else {
        return fail("valid phrase", c.phrase.clone(), "C02 pair case must hold a valid phrase");
    };
    let canonical = bip39::encode_phrase(&entropy);
    let sa = match seed_of(&c.phrase, &c.a) {
        Ok(Ok(s)) => s,
        other => return fail("seed", format!("{other:?}"), "seed computation failed"),
    };
    if let Some(nf) = &c.nfkd {
        let want = bip39::seed_from_normalised(&canonical, nf);
        if sa != want {
            return fail(hex_lower(&want), hex_lower(&sa), format!("[{}] seed for passphrase \"{}\" must use its NFKD form \"{}\" (hand-decomposed)", c.label, escape(&c.a), escape(nf)));
        }
        match seed_of(&c.phrase, nf) {
            Ok(Ok(s)) if s == sa => {}
            other => return fail(hex_lower(&sa), format!("{other:?}"), format!("[{}] NFKD-equivalent passphrases \"{}\" and \"{}\" give different seeds", c.label, escape(&c.a), escape(nf))),
        }
        cls.label("nfkd-equivalent-pair");
        cls.label(&format!("pair-{}", c.label.split('/').next().unwrap_or("")));
        // prefix/suffix context must not matter either
        let wrapped_a = format!("x{}y", c.a);
        let wrapped_n = format!("x{}y", nf);
        if wrapped_a.nfkd().collect::<String>() == wrapped_n.nfkd().collect::<String>() {
            match (seed_of(&c.phrase, &wrapped_a), seed_of(&c.phrase, &wrapped_n)) {
                (Ok(Ok(x)), Ok(Ok(y))) if x == y => {}
                other => return fail("equal seeds", format!("{other:?}"), format!("[{}] equivalence broken inside a longer passphrase", c.label)),
            }
        }
    }
    if let Some(b) = &c.b {
        match seed_of(&c.phrase, b) {
            Ok(Ok(s)) if s != sa => cls.label("non-equivalent-pair"),
            other => return fail("different seeds", format!("{other:?}"), format!("[{}] passphrases \"{}\" and \"{}\" are not NFKD-equivalent but give the same seed", c.label, escape(&c.a), escape(b))),
        }
    }
    cls.nontrivial(&(c.phrase.as_str(), c.a.as_str(), c.label.as_str()));
    cls.sample(if c.nfkd.is_some() { "equivalent-pair" } else { "non-equivalent-pair" }, || {
        json!({"label": c.label, "a": escape(&c.a), "nfkd": c.nfkd.as_deref().map(escape), "b": c.b.as_deref().map(escape)})
    });
    Ok(())
}

// ---------------------------------------------------------------- CLI sample: the passphrase reaches the seed unchanged

#[derive(Clone, Debug, Serialize, Deserialize)]
pub struct CliCase {
    pub phrase: String,
    pub passphrase: String,
    pub via_env: bool,
}

fn judge_cli(c: &CliCase, cls: &mut Classifier) -> Verdict {
    use crate::cli::Invocation;
    use crate::refimpl::bip32;
    let Ok(entropy) = bip39::decode_phrase(&c.phrase) else { return fail("valid phrase", c.phrase.clone(), "bad case") };
    let canonical = bip39::encode_phrase(&entropy);
    let normalised: String = c.passphrase.nfkd().collect();
    let seed = bip39::seed_from_normalised(&canonical, &normalised);
    let key = bip32::derive(&seed, &bip32::default_path(0)).expect("reference key");
    let mut inv = Invocation::new(&["export", "--mnemonic", &c.phrase]);
    inv = if c.via_env { inv.env("PASSWORD", c.passphrase.clone()) } else { inv.arg(format!("--password={}", c.passphrase)) };
    let Some(out) = crate::cli::run_global(&inv) else { return fail("cli", "not configured", "CLI not available") };
    if out.timed_out {
        cls.label("timed-out");
        return Ok(());
    }
    let want = format!("0x{}\n", hex_lower(&key));
    if !out.ok() || out.stdout_str() != want {
        return fail(want, out.describe(), format!("`hdwallet export` with passphrase \"{}\" ({}): the exported key must derive from PBKDF2(phrase, 'mnemonic'+NFKD(passphrase))", escape(&c.passphrase), if c.via_env { "PASSWORD env" } else { "--password=" }));
    }
    cls.label("cli-export");
    if c.passphrase.trim() != c.passphrase {
        cls.label("cli-passphrase-with-outer-whitespace");
    }
    if normalised != c.passphrase {
        cls.label("cli-passphrase-changed-by-nfkd");
    }
    cls.nontrivial(&(c.phrase.as_str(), c.passphrase.as_str(), c.via_env));
    Ok(())
}

pub fn run(ctx: &mut Ctx) {
    ctx.rule = "valid mnemonics of all five lengths in two random ASCII white-space layouts x passphrases {empty, ASCII, Latin precomposed, base+combining marks, full-width, compatibility signs/ligatures, Hangul, CJK/kana, astral (math alphanumerics, emoji with ZWJ/VS), mixtures, arbitrary scalars <= 64, passphrases of 120..2000 scalars, runs of 29..100 combining marks}; one mnemonic in twelve is built from the longest or the shortest words of the list (24 words: canonical phrase up to ~215 bytes / down to ~95). Oracle 1: PBKDF2-HMAC-SHA512 written out over hmac, P = reference-canonical phrase, S = 'mnemonic' + NFKD(passphrase). Oracle 2 (independent of unicode-normalization): the hand-written NFKD pair table (788 pairs) and arithmetic Hangul decomposition: seed(a) == seed(hand-decomposed a) == reference PBKDF2 over the hand-decomposed bytes; non-equivalent look-alikes give different seeds; two layouts of the same words give the same seed. Histories (one thread, 3..6 consecutive seed computations, each compared with the reference): wallets related so that entropy||'mnemonic'||passphrase or phrase||passphrase concatenations coincide for different (mnemonic, passphrase) pairs, the salt prefix repeated inside the passphrase, one passphrase under neighbouring mnemonics, one mnemonic under related passphrases, with revisits. CLI sample: `export` with passphrases carrying outer white space / NFKD-sensitive characters (flag and PASSWORD env) must print the reference-derived key. Non-trivial: passphrase not empty/'TREZOR' or length not 12/24; distinct by (words, normalised passphrase).".into();
    ctx.assumptions = vec![
        "unicode-normalization is used as the NFKD primitive for generated passphrases; cross-checked by the hand-written table".into(),
        "hmac + sha2::Sha512 are correct".into(),
    ];
    ctx.replay_known_and_regressions(&replay);
    let n = ctx.tier.pick(8000, 150_000);
    ctx.run_prop("seed", n, || crate::gen::tape(200).prop_map(gen_case), judge);
    // every ASCII passphrase length 0..=140 (salt lengths across the SHA-512 block size 128 and any small fixed
    // buffer) and a few long ones, on one mnemonic per length class
    let mut sweep = vec![];
    let mut sp = crate::engine::Prng::new(ctx.sub_seed("ascii-lengths", 0));
    for len in (0..=140usize).chain([255, 256, 257, 1000, 4095, 4096, 4097, 8192]) {
        let e = sp.bytes([16, 20, 24, 28, 32][len % 5]);
        let phrase = bip39::encode_phrase(&e);
        let pass: String = (0..len).map(|_| (0x21 + sp.below(0x5e) as u8) as char).collect();
        sweep.push(Case { phrase: phrase.clone(), passphrase: pass, phrase2: phrase });
    }
    ctx.run_cases("seed", &sweep, judge);
    ctx.exhaustive_parts.push("every ASCII passphrase length 0..=140".into());

    // pair table on several mnemonics
    let mut p = crate::engine::Prng::new(ctx.sub_seed("pairs", 0));
    let nm = ctx.tier.pick(2, 5);
    let mut pairs = vec![];
    for mi in 0..nm {
        let e = p.bytes([16, 20, 24, 28, 32][mi % 5]);
        let phrase = bip39::encode_phrase(&e);
        for (label, a, nf) in PAIRS {
            pairs.push(PairCase { phrase: phrase.clone(), label: label.to_string(), a: a.to_string(), nfkd: Some(nf.to_string()), b: None });
        }
        for (label, a, b) in NON_EQUIVALENT {
            pairs.push(PairCase { phrase: phrase.clone(), label: label.to_string(), a: a.to_string(), nfkd: None, b: Some(b.to_string()) });
        }
        // Hangul: a seeded sample of syllables (all 11172 in thorough for the first mnemonic)
        let step = if ctx.tier == crate::engine::Tier::Thorough && mi == 0 { 1 } else { 97 };
        let mut cp = 0xac00u32 + (p.below(step as u64) as u32);
        while cp <= 0xd7a3 {
            let c = char::from_u32(cp).unwrap();
            let d = hangul_decompose(c).expect("syllable");
            pairs.push(PairCase { phrase: phrase.clone(), label: "hangul-arith".into(), a: format!("pw{c}"), nfkd: Some(format!("pw{d}")), b: None });
            cp += step;
        }
    }
    ctx.run_cases("pairs", &pairs, judge_pair);
    let nh = ctx.tier.pick(1500, 40_000);
    ctx.run_prop("history", nh, || crate::gen::tape(160).prop_map(gen_history), judge_history);
    for f in ["entropy-salt-concatenation", "phrase-passphrase-concatenation", "salt-prefix-in-passphrase", "same-passphrase", "same-mnemonic"] {
        ctx.floor(&format!("history/{f}"), nh as u64, 0.1);
    }
    ctx.exhaustive_parts.push("the whole hand-written NFKD pair table per sampled mnemonic".into());
    if crate::cli::global_cli().is_some() {
        let mut cc = vec![];
        let outer = [" ", "  ", "\t", "\n", "\u{3000}", "\u{a0}", "\r\n"];
        for i in 0..ctx.tier.pick(160, 3000) as u64 {
            let tape = crate::engine::Prng::new(ctx.sub_seed("cli", i)).bytes(200);
            let mut u = U::new(&tape);
            let base = gen_case(tape.clone());
            let (mut pw, _) = gen_pass(&mut u);
            pw = pw.replace('\0', "");
            match i % 4 {
                0 => pw = format!("{}{pw}", outer[u.below(outer.len())]),
                1 => pw = format!("{pw}{}", outer[u.below(outer.len())]),
                2 => pw = format!("{}{pw}{}", outer[u.below(outer.len())], outer[u.below(outer.len())]),
                _ => {}
            }
            cc.push(CliCase { phrase: base.phrase, passphrase: pw, via_env: i % 3 == 0 });
        }
        // long passphrases through both channels (a fixed-size secret buffer shows only beyond its size)
        let mut lp = crate::engine::Prng::new(ctx.sub_seed("cli-long", 0));
        for (i, len) in [4095usize, 4096, 4097, 8192, 65_536, 100_000].into_iter().enumerate() {
            let phrase = bip39::encode_phrase(&lp.bytes(16));
            let pw: String = (0..len).map(|_| (0x30 + lp.below(0x4a) as u8) as char).collect();
            cc.push(CliCase { phrase, passphrase: pw, via_env: i % 2 == 0 });
        }
        ctx.run_cases("cli-export", &cc, judge_cli);
        if ctx.cls.count("timed-out") > 0 {
            ctx.inconclusive("CLI watchdog expired");
        }
        ctx.floor_abs("cli-passphrase-with-outer-whitespace", 80);
        ctx.floor_abs("cli-passphrase-changed-by-nfkd", 30);
    } else {
        ctx.inconclusive("CLI executable not available for the passphrase pass-through sample");
    }
    let total = n as u64;
    ctx.floor("passphrase-changed-by-nfkd", total, 0.2);
    ctx.floor("astral", total, 0.05);
    ctx.floor("long-passphrase", total, 0.02);
    ctx.floor("combining-run>=31", total, 0.01);
    ctx.floor_abs("phrase-longer-than-192-bytes", 20);
    ctx.floor("layout-pair", total, 0.5);
    ctx.floor_abs("nfkd-equivalent-pair", 700);
    ctx.floor_abs("non-equivalent-pair", 100);
    for w in bip39::LENGTHS {
        ctx.floor(&format!("words-{w}"), total, 0.1);
    }
}

pub fn replay(sub: &str, case: &Value) -> Option<Verdict> {
    match sub {
        "seed" => Some(replay_as::<Case>(case, judge)),
        "pairs" => Some(replay_as::<PairCase>(case, judge_pair)),
        "history" => Some(replay_as::<HistCase>(case, judge_history)),
        "cli-export" => Some(replay_as::<CliCase>(case, judge_cli)),
        _ => None,
    }
}
