//! In-process interposition of `getentropy` (fault injection for C12). The
//! `hdv` binary defines the C symbol and forwards here; with no script
//! installed the call goes to the real libc function.

use std::os::raw::{c_int, c_void};
use std::sync::Mutex;

#[derive(Clone, Debug)]
pub enum Outcome {
    /// deliver exactly the requested number of bytes, cycling this pattern
    Fill(Vec<u8>),
    /// fail with this errno
    Fail(i32),
}

#[derive(Clone, Debug)]
pub struct Call {
    pub requested: usize,
    pub delivered: Option<Vec<u8>>,
    pub errno: Option<i32>,
}

pub struct Script {
    pub outcomes: Vec<Outcome>,
    pub default: Outcome,
    pub log: Vec<Call>,
}

static SCRIPT: Mutex<Option<Script>> = Mutex::new(None);
/// Serialises the checks that use the interposer.
pub static EXCLUSIVE: Mutex<()> = Mutex::new(());

/// Runs `f` with `script` installed; returns f's result and the call log.
pub fn with_script<T>(outcomes: Vec<Outcome>, default: Outcome, f: impl FnOnce() -> T) -> (T, Vec<Call>) {
    let _g = EXCLUSIVE.lock().unwrap_or_else(|e| e.into_inner());
    *SCRIPT.lock().unwrap_or_else(|e| e.into_inner()) = Some(Script { outcomes, default, log: vec![] });
    let r = std::panic::catch_unwind(std::panic::AssertUnwindSafe(f));
    let log = SCRIPT
        .lock()
        .unwrap_or_else(|e| e.into_inner())
        .take()
        .map(|s| s.log)
        .unwrap_or_default();
    match r {
        Ok(v) => (v, log),
        Err(p) => std::panic::resume_unwind(p),
    }
}

type RealFn = unsafe extern "C" fn(*mut u8, usize) -> c_int;

fn real() -> Option<RealFn> {
    let p = unsafe { libc::dlsym(libc::RTLD_NEXT, c"getentropy".as_ptr()) };
    if p.is_null() {
        None
    } else {
        Some(unsafe { std::mem::transmute::<*mut c_void, RealFn>(p) })
    }
}

/// Called by the `getentropy` symbol the binary exports.
///
/// # Safety
/// `buf` must be valid for `len` bytes, as for the C function.
pub unsafe fn interposed(buf: *mut u8, len: usize) -> c_int {
    let mut guard = SCRIPT.lock().unwrap_or_else(|e| e.into_inner());
    match guard.as_mut() {
        None => {
            drop(guard);
            match real() {
                Some(f) => f(buf, len),
                None => {
                    *libc::__errno_location() = libc::ENOSYS;
                    -1
                }
            }
        }
        Some(script) => {
            let i = script.log.len();
            let outcome = script.outcomes.get(i).cloned().unwrap_or_else(|| script.default.clone());
            match outcome {
                Outcome::Fail(e) => {
                    script.log.push(Call { requested: len, delivered: None, errno: Some(e) });
                    *libc::__errno_location() = e;
                    -1
                }
                Outcome::Fill(pattern) => {
                    // the real call refuses more than 256 bytes
                    if len > 256 {
                        script.log.push(Call { requested: len, delivered: None, errno: Some(libc::EIO) });
                        *libc::__errno_location() = libc::EIO;
                        return -1;
                    }
                    let mut delivered = Vec::with_capacity(len);
                    for k in 0..len {
                        let b = if pattern.is_empty() { 0 } else { pattern[k % pattern.len()] };
                        delivered.push(b);
                        *buf.add(k) = b;
                    }
                    script.log.push(Call { requested: len, delivered: Some(delivered), errno: None });
                    0
                }
            }
        }
    }
}
