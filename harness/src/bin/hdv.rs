//! hdv <ID|selftest|list> [--tier quick|thorough] [--root DIR] [--replay FILE]
//!     [--cli PATH] [--cli-plain PATH] [--shim PATH] [--fuzz-dir DIR]

use hdv::engine::{install_panic_hook, Ctx, Tier};
use std::os::raw::c_int;
use std::path::PathBuf;

/// Interposes libc's getentropy for the statically linked hdwallet library
/// (fault injection for C12). Forwards to the real function when no script
/// is installed.
///
/// # Safety
/// Same contract as the C function.
#[no_mangle]
pub unsafe extern "C" fn getentropy(buf: *mut u8, len: usize) -> c_int {
    hdv::entropy::interposed(buf, len)
}

fn main() {
    let args: Vec<String> = std::env::args().skip(1).collect();
    if args.first().map(|s| s.as_str()) == Some("lib-call") {
        // child side of c17::isolated_call: hdv lib-call <entry>  (input on stdin)
        install_panic_hook();
        let entry = args.get(1).cloned().unwrap_or_default();
        std::process::exit(hdv::props::c17::lib_call_main(&entry));
    }
    let mut id = String::new();
    let mut tier = match std::env::var("VERIF_TIER").as_deref() {
        Ok("thorough") => Tier::Thorough,
        _ => Tier::Quick,
    };
    let mut root = PathBuf::from("/verif");
    let mut replay: Option<PathBuf> = None;
    let (mut cli, mut cli_plain, mut shim, mut fuzz_dir) = (None, None, None, None);
    let mut i = 0;
    while i < args.len() {
        let next = |i: &mut usize| -> String {
            *i += 1;
            args.get(*i).cloned().unwrap_or_default()
        };
        match args[i].as_str() {
            "--tier" => {
                tier = match next(&mut i).as_str() {
                    "thorough" => Tier::Thorough,
                    _ => Tier::Quick,
                }
            }
            "--root" => root = PathBuf::from(next(&mut i)),
            "--replay" => replay = Some(PathBuf::from(next(&mut i))),
            "--cli" => cli = Some(PathBuf::from(next(&mut i))),
            "--cli-plain" => cli_plain = Some(PathBuf::from(next(&mut i))),
            "--shim" => shim = Some(PathBuf::from(next(&mut i))),
            "--fuzz-dir" => fuzz_dir = Some(PathBuf::from(next(&mut i))),
            s if id.is_empty() => id = s.to_string(),
            s => {
                eprintln!("unexpected argument {s}");
                std::process::exit(2);
            }
        }
        i += 1;
    }
    let seed: u64 = std::env::var("VERIF_SEED").ok().and_then(|s| s.trim().parse::<i128>().ok()).map(|v| v as u64).unwrap_or(0);
    install_panic_hook();

    if id == "gen-corpus" {
        let dir = root.join("fuzz").join("corpus");
        match hdv::fuzz::gen_corpus(&dir, 40) {
            Ok(()) => println!("seed corpora written to {}", dir.display()),
            Err(e) => {
                println!("INCONCLUSIVE cannot write corpus: {e}");
                std::process::exit(2);
            }
        }
        return;
    }
    if id == "list" {
        for p in hdv::props::ALL {
            println!("{p}");
        }
        return;
    }
    let errs = hdv::selftest::run(id == "selftest");
    if !errs.is_empty() {
        for e in errs {
            println!("INCONCLUSIVE selftest failed: {e}");
        }
        std::process::exit(2);
    }
    if id == "selftest" {
        println!("selftest ok");
        return;
    }

    hdv::cli::set_global(cli.clone(), root.clone());
    if replay.is_none() {
        hdv::isolate::init(&id, tier.name(), seed, root.clone());
    }
    let mut ctx = Ctx::new(&id, tier, seed, root.clone());
    ctx.cli = cli;
    ctx.cli_plain = cli_plain;
    ctx.shim = shim;
    ctx.fuzz_dir = fuzz_dir;

    if let Some(file) = replay {
        let text = match std::fs::read_to_string(&file) {
            Ok(t) => t,
            Err(e) => {
                println!("INCONCLUSIVE cannot read {}: {e}", file.display());
                std::process::exit(2);
            }
        };
        let v: serde_json::Value = match serde_json::from_str(&text) {
            Ok(v) => v,
            Err(e) => {
                println!("INCONCLUSIVE {} is not JSON: {e}", file.display());
                std::process::exit(2);
            }
        };
        let sub = v.get("subcheck").and_then(|s| s.as_str()).unwrap_or("").to_string();
        let case = v.get("case").cloned().unwrap_or(serde_json::Value::Null);
        let code = match hdv::props::replay(&id, &sub, &case, &ctx) {
            None => {
                println!("INCONCLUSIVE unknown sub-check {sub} for {id}");
                2
            }
            Some(Ok(())) => {
                println!("replay {id}/{sub}: passes");
                0
            }
            Some(Err(f)) => {
                println!("VIOLATION property={id} replay={}", file.display());
                println!("  subcheck={sub} note={}\n  expected={}\n  observed={}", f.note, f.expected, f.observed);
                1
            }
        };
        hdv::cli::cleanup(&root);
        std::process::exit(code);
    }

    if !hdv::props::run(&mut ctx) {
        println!("INCONCLUSIVE unknown property {id}");
        std::process::exit(2);
    }
    let code = ctx.finish();
    hdv::cli::cleanup(&root);
    std::process::exit(code);
}
