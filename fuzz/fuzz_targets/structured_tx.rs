#![no_main]
use libfuzzer_sys::fuzz_target;

fuzz_target!(|data: &[u8]| {
    hdv::fuzz::run("structured_tx", data);
});
