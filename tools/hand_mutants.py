#!/usr/bin/env python3
"""Hand-written sensitivity mutants from the 'M' lists of DESIGN.md section 6. Each is applied to a
scratch worktree (/tmp/mutrun), must compile, and the named quick checks must report a violation.
Usage: python3 tools/hand_mutants.py [name-substring ...]   (prints one line per mutant)"""
import subprocess, sys, os, json, re

WT = "/tmp/mutrun"
ROOT = os.path.dirname(os.path.dirname(os.path.abspath(__file__)))
M = [
 # name, props, file, old, new
 ("c01-flush-ge8", ["C01"], "src/mnemonic.rs", "while bit_offset > 8 {", "while bit_offset >= 8 {"),
 ("c01-checksum-one-bit-less", ["C01"], "src/mnemonic.rs", "let checksum_mask = (1 << bit_offset) - 1;\n            ensure!(\n                hash[0] >> (8 - bit_offset) == (acc & checksum_mask) as u8,", "let checksum_mask = (1 << bit_offset) - 1;\n            ensure!(\n                hash[0] >> (9 - bit_offset) == ((acc & checksum_mask) >> 1) as u8,"),
 ("c01-word-zoo-zop", ["C01"], "src/mnemonic/wordlist/english.txt", "zone\nzoo\n", "zone\nzop\n"),
 ("c01-split-on-space-only", ["C01", "C02"], "src/mnemonic/language.rs", ".split_whitespace()", ".split(' ')"),
 ("c02-no-nfkd", ["C02"], "src/mnemonic.rs", "salt.nfkd().to_string().as_bytes()", "salt.as_bytes()"),
 ("c02-nfkc", ["C02"], "src/mnemonic.rs", "salt.nfkd().to_string().as_bytes()", "salt.nfkc().to_string().as_bytes()"),
 ("c02-nfd", ["C02"], "src/mnemonic.rs", "salt.nfkd().to_string().as_bytes()", "salt.nfd().to_string().as_bytes()"),
 ("c07-long-form-below-55", ["C07", "C06"], "src/transaction/rlp.rs", "if len < 56 {", "if len < 55 {"),
 ("c07-single-byte-le-0x80", ["C07", "C06"], "src/transaction/rlp.rs", "[x] if *x < 0x80 => vec![*x],", "[x] if *x <= 0x80 => vec![*x],"),
 ("c07-len-leading-zeros-bits", ["C07"], "src/transaction/rlp.rs", "let start = len.leading_zeros() / 8;\n            &bl_buf[start as usize..]", "let start = (len.leading_zeros() + 7) / 8;\n            &bl_buf[(start as usize).min(7)..]"),
 ("c06-v-drops-parity-with-chain", ["C06", "C11"], "src/account/signature.rs", "Some(chain_id) => self.y_parity() + chain_id * 2 + 35,", "Some(chain_id) => chain_id * 2 + 35,"),
 ("c06-to-null-as-zero-address", ["C06"], "src/transaction/eip1559.rs", ".map_or_else(|| rlp::bytes(b\"\"), |to| rlp::bytes(&*to)),", ".map_or_else(|| rlp::bytes(&[0u8; 20]), |to| rlp::bytes(&*to)),"),
 ("c06-kind-prefers-access-list", ["C06"], "src/transaction.rs", "if json.contains_key(\"maxPriorityFeePerGas\") || json.contains_key(\"maxFeePerGas\") {", "if !json.contains_key(\"accessList\") && (json.contains_key(\"maxPriorityFeePerGas\") || json.contains_key(\"maxFeePerGas\")) {"),
 ("c08-deps-in-visit-order", ["C08"], "src/typeddata.rs", "let mut buffer = type_definition.to_string();\n        for sub_type in sub_types.values() {", "let mut buffer = type_definition.to_string();\n        let mut ordered = sub_types.values().collect::<Vec<_>>();\n        ordered.sort_by_key(|t| t.kind.to_lowercase());\n        for sub_type in ordered {"),
 ("c08-primary-not-excluded", ["C08"], "src/typeddata.rs", "if sub_type_name == kind || sub_types.contains_key(sub_type_name) {", "if sub_types.contains_key(sub_type_name) {"),
 ("c09-uint-bound-strict", ["C09"], "src/typeddata.rs", "value.leading_zeros() + n >= 256,", "value.leading_zeros() + n > 256,"),
 ("c09-int-bound-one-bit-wide", ["C09"], "src/typeddata.rs", "ensure!(sign_bits + n > 256,", "ensure!(sign_bits + n >= 256,"),
 ("c09-bytesn-padded", ["C09"], "src/typeddata.rs", "*n == bytes.len() as u32,", "*n >= bytes.len() as u32,"),
 ("c09-fixed-size-only-if-nonempty", ["C09"], "src/typeddata.rs", "if let Some(size) = size {\n                    ensure!(\n                        value.len() == *size,", "if let Some(size) = size.filter(|_| !value.is_empty()) {\n                    ensure!(\n                        value.len() == size,"),
 ("c20-type-not-compared-after-first", ["C20"], "src/typeddata.rs", "ensure!(\n                    &member.kind == kind,", "ensure!(\n                    &member.kind == kind || member.name == \"salt\" && member.kind == MemberKind::Bytes(None),"),
 ("c11-guard-only-full-output", ["C11"], "src/cmd/sign.rs", "ensure!(\n                    allow_missing_relay_protection,", "ensure!(\n                    allow_missing_relay_protection || signature_only,"),
 ("c13-negative-check-removed", ["C13", "C09"], "src/serialization.rs", "if matches!(&value, Value::Number(n) if n.as_f64().is_some_and(|n| n < 0.0)) {", "if matches!(&value, Value::Number(n) if n.as_f64().is_some_and(|n| n < -9007199254740992.0)) {"),
 ("c13-bytes-prefix-optional", ["C13"], "src/serialization.rs", "let s = s\n            .strip_prefix(\"0x\")\n            .ok_or_else(|| de::Error::custom(\"storage slot missing '0x' prefix\"))?;\n        hex::decode(s).map_err(de::Error::custom)", "let s = s.strip_prefix(\"0x\").unwrap_or(&s);\n        hex::decode(s).map_err(de::Error::custom)"),
 ("c13-no-float-roundtrip", ["C13"], "Cargo.toml", 'serde_json = { version = "1", features = ["float_roundtrip"] }', 'serde_json = "1"'),
 ("c10-len-of-prefixed-buffer", ["C10"], "src/message.rs", "write!(buffer, \"{}\", data.len()).expect(\"unexpected error writing number\");", "write!(buffer, \"{}\", data.len().min(99_999)).expect(\"unexpected error writing number\");"),
 ("c03-le-index-large", ["C03"], "src/hdk.rs", "hmac.update(&value.to_be_bytes());", "hmac.update(&if value & 0x00ff_0000 == 0x00ff_0000 { value.to_le_bytes() } else { value.to_be_bytes() });"),
 ("c04-lowercase-address", ["C04", "C16"], "src/cmd/address.rs", "println!(\"{}\", options.account.private_key()?.address());", "println!(\"{:?}\", options.account.private_key()?.address());"),
]

def sh(cmd, **kw):
    return subprocess.run(cmd, shell=True, capture_output=True, text=True, **kw)

def main():
    sel = sys.argv[1:]
    if not os.path.exists(WT):
        sh(f"git -C /repo worktree add -q --detach {WT} HEAD")
    head = sh("git -C /repo rev-parse HEAD").stdout.strip()
    sh(f"git -C {WT} checkout -q --detach {head}; git -C {WT} checkout -q -- .; git -C {WT} clean -fdq -e target")
    env = dict(os.environ, HDV_REPO=WT, HDV_EVIDENCE_DIR="/tmp/mut_evidence", CARGO_NET_OFFLINE="true")
    for name, props, f, old, new in M:
        if sel and not any(s in name for s in sel):
            continue
        p = os.path.join(WT, f)
        s = open(p).read()
        if s.count(old) != 1:
            print(f"HAND {name}: anchor count {s.count(old)} != 1"); continue
        open(p, "w").write(s.replace(old, new))
        b = sh(f"cd {WT} && cargo build --offline 2>&1 | tail -3")
        if "error" in b.stdout:
            print(f"HAND {name}: build FAIL {b.stdout[-300:]!r}")
            sh(f"git -C {WT} checkout -q -- ."); continue
        t = sh(f"cd {WT} && cargo test --workspace --no-fail-fast --offline 2>&1 | grep -E '^test result' | awk '{{p+=$4; f+=$6}} END {{print p \"/\" f}}'").stdout.strip()
        res = []
        for pr in props:
            r = subprocess.run([os.path.join(ROOT, "check"), pr, "quick"], env=env, capture_output=True, text=True)
            subs = sorted(set(re.findall(r"subcheck=(\S+)", r.stdout)))
            res.append(f"{pr}={r.returncode}{subs}")
        print(f"HAND {name}: tests={t} {' '.join(res)}", flush=True)
        sh(f"git -C {WT} checkout -q -- .")

main()
