#!/usr/bin/env python3
"""Rewrites the numeric column of the cost table in DESIGN.md section 10 from evidence/*.json (run the whole
quick suite on an idle machine first: VERIF_SEED=0 ./check all quick)."""
import json, os, re
root = os.path.dirname(os.path.dirname(os.path.abspath(__file__)))
p = os.path.join(root, "DESIGN.md")
s = open(p).read()
def fmt(n): return f"{n:,}"
for i in range(1, 21):
    pid = f"C{i:02d}"
    e = json.load(open(os.path.join(root, "evidence", pid + ".json")))
    if e.get("tier") != "quick":
        print("skip", pid, "(evidence is not from a quick run)"); continue
    c = e["coverage"]
    cell = f"{fmt(c['evaluations'])} / {fmt(c['distinct_nontrivial'])} / {e['wall_s']:.1f} s"
    s, n = re.subn(r"(\| " + pid + r" \| [^|]* \| )[^|]*( \|)", lambda m: m.group(1) + cell + m.group(2), s, count=1)
    assert n == 1, pid
open(p, "w").write(s)
print("cost table updated")
