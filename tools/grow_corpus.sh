#!/bin/sh
# tools/grow_corpus.sh [seconds-per-target]: runs each libFuzzer target for a while from the committed
# corpus and merges the coverage-increasing units back into fuzz/corpus/<target> (minimised by libFuzzer's
# -merge). Oracle failures stop a job (artifact kept under .build/fuzz-grow/<target>/artifacts for inspection).
ROOT=$(cd "$(dirname "$0")/.." && pwd)
SECS=${1:-60}
B="$ROOT/.build"
export CARGO_NET_OFFLINE=true RUST_BACKTRACE=0
(cd "$ROOT/fuzz" && cargo +stable fuzz build -s none --fuzz-dir "$ROOT/fuzz" --target-dir "$B/fuzz" >"$B/fuzz.log" 2>&1) || { tail -20 "$B/fuzz.log"; exit 2; }
BIN="$B/fuzz/x86_64-unknown-linux-gnu/release"
for t in mnemonic path signature transaction typeddata structured_tx structured_712 structured_c09 structured_c13; do
    W="$B/fuzz-grow/$t"; rm -rf "$W"; mkdir -p "$W/artifacts"
    for j in 1 2 3 4; do
        mkdir -p "$W/c$j"; cp "$ROOT/fuzz/corpus/$t/"* "$W/c$j/" 2>/dev/null
        D=""; [ -f "$ROOT/fuzz/dict/$t.dict" ] && D="-dict=$ROOT/fuzz/dict/$t.dict"
        "$BIN/$t" "$W/c$j" -max_total_time=$SECS -seed=$((j * 7919)) -max_len=4096 -len_control=0 -timeout=10 -use_value_profile=1 $D -artifact_prefix="$W/artifacts/" >"$W/log$j.txt" 2>&1 &
    done
    wait
    mkdir -p "$W/merged"
    "$BIN/$t" -merge=1 -max_len=4096 "$W/merged" "$ROOT/fuzz/corpus/$t" "$W/c1" "$W/c2" "$W/c3" "$W/c4" >"$W/merge.txt" 2>&1
    n=$(ls "$W/merged" | wc -l); a=$(ls "$W/artifacts" | wc -l)
    echo "$t: merged corpus $n files, artifacts $a, $(du -sh "$W/merged" | cut -f1)"
done
