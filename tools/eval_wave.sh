#!/bin/sh
# tools/eval_wave.sh <root> [jobs]: confirms every <root>/out-<PROP>/<k>/ (patch.diff + demo) with tools/try_mutant.sh,
# <jobs> at a time, each job in its own scratch worktree /tmp/mutrun-<slot>; checks run: the change's own property and,
# when that stays silent, all twenty. One summary line per change is appended to <root>/results.txt.
ROOT=$(cd "$(dirname "$0")/.." && pwd)
W=$1; J=${2:-4}
one() {
    d=$1; slot=$2
    prop=$(basename "$(dirname "$d")" | sed 's/out-//'); k=$(basename "$d")
    [ -f "$d/patch.diff" ] || return 0
    grep -q "^$prop/$k " "$W/results.txt" 2>/dev/null && return 0
    line=$(MUT_WT=/tmp/mutrun-$slot MUT_LOG=/tmp/mutlog/$prop-$k "$ROOT/tools/try_mutant.sh" "$d" "$prop" | tail -1)
    case "$line" in
        *"$prop=1"*) ;;
        *demo_with=0*|*FAIL*) ;;
        *) rest=$(for q in C01 C02 C03 C04 C05 C06 C07 C08 C09 C10 C11 C12 C13 C14 C15 C16 C17 C18 C19 C20; do [ $q = $prop ] || echo $q; done | tr '\n' ' ')
           line2=$(MUT_WT=/tmp/mutrun-$slot MUT_LOG=/tmp/mutlog/$prop-$k-all "$ROOT/tools/try_mutant.sh" "$d" $rest | tail -1)
           line="$line || others: $(echo "$line2" | sed 's/.*checks://' | tr ' ' '\n' | grep -v '=0\[' | tr '\n' ' ')" ;;
    esac
    echo "$prop/$k $line" >> "$W/results.txt"
}
i=0
for d in "$W"/out-*/[0-9]*; do
    i=$((i + 1)); slot=$((i % J))
    echo "$d $slot"
done > "$W/.todo"
for s in $(seq 0 $((J - 1))); do
    ( grep " $s\$" "$W/.todo" | while read d slot; do one "$d" "$slot"; done ) &
done
wait
