#!/usr/bin/env python3
"""Writes /verif/MANIFEST.json from the table below (kept in one place so the
manifest is always schema-valid). Run: python3 tools/gen_manifest.py"""
import json, os, subprocess

ROOT = os.path.dirname(os.path.dirname(os.path.abspath(__file__)))

# property id -> (technique, level text, level note, DESIGN section)
P = {
 "C01": ("proptest generation + exhaustive sweeps (word x position, all 2048 final words for every count 0..40) against a bit-string BIP-39 reference; libFuzzer in thorough",
         "Exploration: accept <=> reference-valid on ~0.5M phrases per quick run incl. the exhaustive word x position table and full final-word sweeps for every word count; canonical print/length/re-parse for every accepted phrase. Held on everything generated; the sweeps named exhaustive are complete.",
         "Trusts sha2 and the pinned copy of the English word list (sha256 checked); non-ASCII white space and case variants of list words are unspecified and only checked for no panic."),
 "C10": ("exhaustive length sweep 0..1100 + powers of ten +-1 + proptest byte strings against an EIP-191 reference (sha3 Keccak, own decimal loop)",
         "Exploration: digest equals the reference for every length 0..1100, all first-byte values, 10^k-1..10^k+1 up to 10^5 (10^7 thorough) and random/non-UTF-8 contents, through all three carriers.",
         "Trusts sha3::Keccak256."),
}
BUILT = [k for k in sorted(P)]

def main():
    props = [json.loads(l) for l in open(os.path.join(ROOT, "properties.jsonl"))]
    ids = [p["id"] for p in props]
    hooks_commits = subprocess.run(["git", "-C", "/repo", "log", "--format=%h %s", "--grep=^verif hook"],
                                   capture_output=True, text=True).stdout.strip().splitlines()
    checks = []
    for pid in ids:
        if pid not in BUILT:
            continue
        tech, text, note = P[pid]
        checks.append({
            "property_id": pid,
            "quick_cmd": f"./check {pid} quick",
            "thorough_cmd": f"./check {pid} thorough",
            "evidence_file": f"evidence/{pid}.json",
            "replay_cmd_template": f"./check {pid} replay {{path}}",
            "engine": "hdv",
            "level_claimed": {"category": "exploration", "text": text, "design_ref": f"DESIGN.md section 6, {pid}"},
            "level_note": note,
            "technique": tech,
        })
    na = [{"property_id": pid, "reason": "check not built yet in this round (planned in DESIGN.md section 6); no claim is made"}
          for pid in ids if pid not in BUILT]
    m = {
        "version": 1,
        "setup_cmd": "./check setup",
        "hooks": {
            "guard": "cargo feature verif-hooks",
            "enable": "harness/Cargo.toml depends on hdwallet with features = [\"verif-hooks\"]; the CLI is built without it",
            "baseline_off_cmd": "cd /repo && cargo test --workspace --no-fail-fast --offline",
            "source_commits": [c.split()[0] for c in hooks_commits],
            "add_only": True,
        },
        "engines": [{
            "name": "hdv",
            "path": "harness/",
            "serves_properties": BUILT,
            "kind_free_text": "Rust harness: proptest (seeded, sharded) + exhaustive sweeps + subprocess CLI driver + getentropy fault injection, judged by an independent reference stack (harness/src/refimpl); libFuzzer targets under fuzz/ reuse the same oracles",
        }],
        "checks": checks,
        "not_applicable": na,
        "notes": "Exit protocol: 0 held / 1 VIOLATION lines / 2 INCONCLUSIVE (build, self-test, generator health, watchdog). VERIF_SEED seeds every generator. Known findings: known_findings.json.",
    }
    if not na:
        del m["not_applicable"]
    json.dump(m, open(os.path.join(ROOT, "MANIFEST.json"), "w"), indent=1)
    print("wrote MANIFEST.json with", len(checks), "checks,", len(na), "not claimed")

main()
