#!/usr/bin/env python3
"""Writes /verif/MANIFEST.json from the table below (kept in one place so the
manifest is always schema-valid). Run: python3 tools/gen_manifest.py"""
import json, os, subprocess

ROOT = os.path.dirname(os.path.dirname(os.path.abspath(__file__)))

# property id -> (technique, level text, level note, DESIGN section)
P = {
 "C01": ("proptest generation + exhaustive sweeps (word x position, all 2048 final words for every count 0..40) against a bit-string BIP-39 reference, through from_phrase, FromStr and a CLI sample (--mnemonic=/MNEMONIC); libFuzzer in thorough",
         "Exploration: accept <=> reference-valid on ~0.5M phrases per quick run incl. the exhaustive word x position table and full final-word sweeps for every word count; canonical print/length/re-parse for every accepted phrase. Held on everything generated; the sweeps named exhaustive are complete.",
         "Trusts sha2 and the pinned copy of the English word list (sha256 checked); non-ASCII white space is unspecified and only checked for no panic; letter-case variants of list words are judged as unknown words (the list is lower case; 'the same words' and parse/print inversion exclude folding)."),
 "C10": ("exhaustive length sweep 0..1100 + powers of ten +-1 + proptest byte strings against an EIP-191 reference (sha3 Keccak, own decimal loop); histories of related messages; CLI sample incl. standard input in non-blocking mode delivered in two parts",
         "Exploration: digest equals the reference for every length 0..1100, all first-byte values, 10^k-1..10^k+1 up to 10^5 (10^7 thorough) and random/non-UTF-8 contents, through all three carriers.",
         "Trusts sha3::Keccak256."),
 "C02": ("proptest over mnemonics x Unicode passphrase classes against a written-out PBKDF2 reference; hand-written NFKD pair table (788 pairs, independent of unicode-normalization), layout metamorphism, call histories on one thread (independence from earlier computations) and a CLI sample",
         "Exploration: seed equals PBKDF2-HMAC-SHA512(canonical phrase, 'mnemonic'+NFKD(passphrase)) on every generated (mnemonic, passphrase); every pair of the hand-written NFKD table gives equal seeds equal to the reference over the hand-decomposed bytes; look-alike non-equivalent pairs give different seeds; two layouts give one seed.",
         "Trusts hmac/sha2; unicode-normalization is used as a primitive for generated passphrases and is cross-checked by the hand-written table."),
 "C03": ("proptest over (seed, path) against BIP-32 written from the BIP on an independent secp256k1",
         "Exploration: derived key equals the reference for 20k (500k thorough) generated seeds/paths incl. index extremes, all hardened/normal mixes and depths to 12.",
         "Reference secp256k1 is cross-checked against k256 in the self-test; BIP-32-invalid steps are unreachable by generation."),
 "C04": ("proptest + enumerated boundary scalars and all input lengths 0..64 against independent secp256k1/Keccak/EIP-55",
         "Exploration: public key, address bytes and EIP-55 text equal the reference for boundary and random scalars; out-of-range 32-byte secrets refused; other lengths refused or taken as the same integer.",
         "Reference secp256k1 cross-checked against k256; sha3 Keccak."),
 "C05": ("proptest over (key, digest) with range, independent verify/recover, purity, and RFC 6979 reference equality for digests < n; histories of related requests on one thread, then with every key object made on a thread of its own",
         "Exploration: every generated signature is in range, low-s, verifies and recovers to the signer under an independent implementation, is reproducible, and equals the RFC 6979 reference (HMAC-SHA256 DRBG written from the RFC) for digests below n.",
         "RFC 6979 reference checked against the RFC's A.2.5 nonce vector and the repository's pinned signature."),
 "C06": ("proptest over transaction records x keys against a reference transaction model, strict canonical RLP decode and sender recovery; lenient document shapes; near-copy histories on one thread, sequential and with digest/encode calls interleaved",
         "Exploration: kind rule, signing digest and signed bytes equal the reference for every generated record; strict decoder returns every field unchanged; v/yParity formula; recovered sender equals the signer.",
         "Legacy chain ids are capped at c_max here (C11 covers the rest)."),
 "C07": ("exhaustive calldata-length / integer-width / list-size sweeps through the public API with a strict canonical RLP decoder; hook sweep of the length-header function over every length below 2^21 (2^26 thorough)",
         "Exploration with exhaustive parts: every calldata length 0..1100, every single byte, every integer width 0..32 in every field, access-list payloads around each boundary decode strictly to the original; header function equals the reference for every length in the swept range.",
         "Strict decoder is the canonicity oracle (unit-tested in the harness)."),
 "C08": ("tape-decoded generation of type graphs + conforming values against an AST-based EIP-712 reference; hook: encodeType string equality and exhaustive member-type grammar sweep; the same documents through the executable (hash/sign typeddata); histories of related documents on one thread; integer values written as number literals of 2^53 and more (refused or hashed as written)",
         "Exploration: domain separator, message hash and digest equal the reference on every generated document (shared/repeated/diamond/recursive dependencies, 3-dimensional arrays, all 100 atoms); encodeType strings equal; 15600-string grammar sweep is the identity.",
         "ASCII identifiers only; sha3 Keccak."),
 "C09": ("mutation of well-typed documents at a generated tree position (undeclared members also named after existing fields) + exhaustive width x boundary x spelling grid + acceptance controls + CLI sample",
         "Exploration: every mutated (non-conforming) document is refused without panic; in-range boundary controls are accepted and hash to the reference; grid over 32 widths x {uint,int} x boundaries x spellings is exhaustive; sign/hash typeddata fail with empty stdout on a sample.",
         "Float literals f64 cannot carry exactly are excluded (known finding under C13)."),
 "C13": ("proptest over field x spelling (well-formed / malformed / exact-or-refuse literal / unspecified) against the reference encoding and an arbitrary-precision JSON-number oracle, in-process and through `hash transaction` (file and stdin)",
         "Exploration: all spellings of an integer give the reference encoding; every malformed spelling is refused; literals are exact or refused (one open known finding: json-float-literal-rounded); byte fields/addresses/storage keys strict.",
         "Rust's f64 parser is used only inside the known-finding predicate."),
 "C20": ("exhaustive truth table over domain member lists (326 orderings, 3905 sequences, type substitutions incl. wrapped widths, foreign fields, look-alike names) + generated mixtures",
         "Exploration with exhaustive core: accepted <=> well-formed per the property for every enumerated domain type; accepted ones hash to the reference domain separator; refusal is independent of the message.",
         "sha3 Keccak."),
 "C11": ("CLI proptest over chain-id classes x modes x override flag with strict RLP decode, exact-integer v check, reference recovery and a cross-chain metamorphic relation; in-process Signature::v sweep; thorough repeats on the plain release build",
         "Exploration: no chain id without the flag is refused with empty stdout; v == 35+2c+yParity exactly (arbitrary-precision) for every generated c up to the largest representable; the signature recovers to the reference-derived signer over the reference EIP-155 digest and never under another chain id; typed transactions carry c first; c above the bound is an ordinary error, never a panic or wrapped v.",
         "Reference BIP-39/BIP-32/secp256k1 stack; exit-status classification by the kernel."),
 "C14": ("proptest + enumerated boundary grid over path text against an independent byte-level scanner and the BIP-32 reference; Path::for_index sweep; CLI sample; libFuzzer path target in thorough",
         "Exploration: canonical text parses, prints back identically and derives the reference key; any component >= 2^31, empty/non-numeric components and a missing root are refused without panic; for_index(i) is m/44'/60'/0'/0/i below 2^31 and an error above; the CLI agrees.",
         "Leading '+'/zeros and a bare 'm' are unspecified (no panic, self-consistent if accepted)."),
 "C15": ("proptest over real and synthetic signatures, exhaustive sweeps (every length 0..140, all final bytes, 10x10 boundary scalars, non-hex at every position) against an independent reading of signature text; CLI sign->hash pipeline judged by strict RLP decode and reference Keccak; libFuzzer signature target in thorough",
         "Exploration: printed text is 0x+r+s+v and parses back (with and without 0x) to an equal signature; every malformed text is refused without panic; hash transaction --signature of sign --signature-only output equals Keccak of the full signed transaction.",
         "Upper-case digits, 0X and high-s are unspecified."),
 "C17": ("three layers: proptest over every library entry point with valid/mutated/random inputs under catch_unwind; libFuzzer corpus replay (quick) and 5 campaigns (thorough); generated argv/env/stdin for every subcommand judged by exit status",
         "Exploration: no generated input made a library entry point panic or a CLI run exit with anything but 0/2/255; watchdog expiry is reported as inconclusive.",
         "Termination is judged against 10 s / 60 s watchdogs; vanity prefixes are bounded to 3 digits and -j to 64 as the property states."),
 "C19": ("proptest + exhaustive sweeps (all lengths, all byte values, all two-digit spellings, every byte value as intruder) of CLI hex encode/decode against an independent decoder written from the property, over stdin/-/file channels",
         "Exploration: encode prints 0x + lower-case digits; decode inverts it byte-exactly; all white-space/case/prefix layouts decode equally; odd or non-hex input fails with empty stdout.",
         "Non-ASCII white space, white space inside the prefix and 0X are unspecified."),
 "C12": ("fault injection at getentropy: in-process scripted outcomes per call (byte patterns, one-bit-from-previous, EIO/EINTR/ENOSYS) for every length 0..40 and beyond; LD_PRELOAD shim with deterministic logged stream and failure at call k for `new` and the vanity search, judged by the BIP-39 reference; real-entropy distinctness runs",
         "Fault enumeration / exploration: for every supported length exactly one request of 4L/3 bytes, phrase == reference encoding of exactly the delivered bytes, parses back; unsupported lengths and every injected failure give an error with nothing printed; vanity search with failure from call k prints exactly the first matching block among 0..k-1 or fails.",
         "The interposer sees only hdwallet's own requests (Rust std does not use getentropy on Linux); a hang after an injected failure is reported as inconclusive."),
 "C16": ("CLI differential: exhaustive subcommand x selector x flag-or-env matrix plus generated configurations (mnemonic, Unicode passphrase, index/path, option spelling, file/stdin channel, payload, phrase in other white-space layouts) against the reference stack end to end; flag-vs-environment twin runs",
         "Exploration: every subcommand prints exactly the reference result for the selected account (address, key, public key, RFC 6979 signatures over the reference digests, hashes), sign/hash pairs agree, env and flags are interchangeable, both selectors together are refused.",
         "Typed-data payloads are kept simple here (C08/C09 own the typed-data space); clap's own option parsing is trusted."),
 "C18": ("CLI runs of the vanity search over all 16 single digits in both cases, 2- and 3-digit prefixes, thread counts 0/1/2/16, selectors and lengths, with a deterministic logged entropy shim (and real entropy / plain release build in thorough); schedule-independent oracle",
         "Exploration: the printed line is a reference-valid phrase of the requested length whose reference-derived selected address starts with the requested digits, and its entropy is one of the logged blocks; non-hex prefixes are refused. Thread schedules are varied only by repetition, thread count and entropy stream.",
         "The harness does not own the OS scheduler (DESIGN.md section 9); a defect needing one rare interleaving may be missed."),
}
BUILT = [k for k in sorted(P)]

def main():
    props = [json.loads(l) for l in open(os.path.join(ROOT, "properties.jsonl"))]
    ids = [p["id"] for p in props]
    hooks_commits = subprocess.run(["git", "-C", "/repo", "log", "--format=%h %s", "--grep=^verif hook"],
                                   capture_output=True, text=True).stdout.strip().splitlines()
    checks = []
    for pid in ids:
        if pid not in BUILT:
            continue
        tech, text, note = P[pid]
        checks.append({
            "property_id": pid,
            "quick_cmd": f"./check {pid} quick",
            "thorough_cmd": f"./check {pid} thorough",
            "evidence_file": f"evidence/{pid}.json",
            "replay_cmd_template": f"./check {pid} replay {{path}}",
            "engine": "hdv",
            "level_claimed": {"category": "exploration", "text": text, "design_ref": f"DESIGN.md section 6, {pid}"},
            "level_note": note,
            "technique": tech,
        })
    na = [{"property_id": pid, "reason": "check not built yet in this round (planned in DESIGN.md section 6); no claim is made"}
          for pid in ids if pid not in BUILT]
    m = {
        "version": 1,
        "setup_cmd": "./check setup",
        "hooks": {
            "guard": "cargo feature verif-hooks",
            "enable": "harness/Cargo.toml depends on hdwallet with features = [\"verif-hooks\"]; the CLI is built without it",
            "baseline_off_cmd": "cd /repo && cargo test --workspace --no-fail-fast --offline",
            "source_commits": [c.split()[0] for c in hooks_commits],
            "add_only": True,
        },
        "engines": [{
            "name": "hdv",
            "path": "harness/",
            "serves_properties": BUILT,
            "kind_free_text": "Rust harness: proptest (seeded, sharded) + exhaustive sweeps + subprocess CLI driver + getentropy fault injection, judged by an independent reference stack (harness/src/refimpl); libFuzzer targets under fuzz/ reuse the same oracles",
        }],
        "checks": checks,
        "not_applicable": na,
        "notes": "Exit protocol: 0 held / 1 VIOLATION lines / 2 INCONCLUSIVE (build, self-test, generator health, watchdog). VERIF_SEED seeds every generator. Known findings: known_findings.json.",
    }
    if not na:
        del m["not_applicable"]
    json.dump(m, open(os.path.join(ROOT, "MANIFEST.json"), "w"), indent=1)
    print("wrote MANIFEST.json with", len(checks), "checks,", len(na), "not claimed")

main()
