#!/bin/sh
# tools/try_mutant.sh <mutant-dir> <PROP> [more PROPs...]
# Confirms a seeded change (patch.diff + demo_test.rs|demo.sh) in a scratch worktree of /repo and runs
# the named quick checks against it. Prints one summary line. Never touches /repo's working tree.
MD=$(cd "$1" && pwd); shift
PROPS="$*"
WT=${MUT_WT:-/tmp/mutrun}
L=${MUT_LOG:-/tmp}; mkdir -p "$L"
ROOT=$(cd "$(dirname "$0")/.." && pwd)
export CARGO_NET_OFFLINE=true RUST_BACKTRACE=0
if [ ! -d "$WT/.git" ] && [ ! -f "$WT/.git" ]; then git -C /repo worktree add -q --detach "$WT" HEAD || exit 3; fi
git -C "$WT" checkout -q --detach "$(git -C /repo rev-parse HEAD)" 2>/dev/null
git -C "$WT" checkout -q -- . ; git -C "$WT" clean -fdq -e target
res() { echo "MUTANT $(basename "$(dirname "$MD")")/$(basename "$MD") $*"; }
git -C "$WT" apply "$MD/patch.diff" 2>$L/mut_apply.err || { res "apply=FAIL $(head -1 $L/mut_apply.err)"; exit 3; }
(cd "$WT" && cargo build --offline >$L/mut_build.log 2>&1) || { res "build=FAIL"; git -C "$WT" checkout -q -- .; exit 3; }
T=$(cd "$WT" && cargo test --workspace --no-fail-fast --offline 2>&1 | grep -E "^test result" | awk '{p+=$4; f+=$6} END {print p "/" f}')
demo() {
    if [ -f "$MD/demo_test.rs" ]; then
        cp "$MD/demo_test.rs" "$WT/tests/demo_k.rs"
        (cd "$WT" && cargo test --offline --test demo_k >$L/mut_demo.log 2>&1); r=$?
        rm -f "$WT/tests/demo_k.rs"; return $r
    elif [ -f "$MD/demo.sh" ]; then
        sh "$MD/demo.sh" "$WT" >$L/mut_demo.log 2>&1; return $?
    fi
    return 99
}
demo; DW=$?
CH=""
for p in $PROPS; do
    HDV_REPO="$WT" HDV_EVIDENCE_DIR=$L/mut_evidence "$ROOT/check" "$p" quick >$L/mut_check_$p.log 2>&1; rc=$?
    sub=$(grep -m3 "subcheck=" $L/mut_check_$p.log | sed 's/.*subcheck=\([^ ]*\).*/\1/' | sort -u | tr '\n' ',')
    CH="$CH $p=$rc[$sub]"
done
git -C "$WT" checkout -q -- . ; git -C "$WT" clean -fdq -e target
demo; DO=$?
res "tests=$T demo_with=$DW demo_without=$DO checks:$CH"
