#!/bin/sh
# tools/mkwork.sh <dir>: scratch copy of the framework for parallel development (outside /verif).
set -e
D=$1
rm -rf "$D"
mkdir -p "$D/.build"
cp -r /verif/harness /verif/check /verif/DESIGN.md /verif/properties.jsonl /verif/known_findings.json "$D/"
mkdir -p "$D/regressions" "$D/evidence"
ln -sfn /repo "$D/.build/repo"
echo "$D ready"
