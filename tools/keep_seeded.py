#!/usr/bin/env python3
"""tools/keep_seeded.py <PROP> <k> <slug> "<caught-by summary>" ["<first missed by / strengthened note>"]
Copies a confirmed seeded change from /tmp/mutout-<prop>/<k>/ to /verif/seeded/<PROP>-<k>-<slug>/ and
extends its meta.json with what was run here."""
import sys, os, json, shutil, subprocess
prop, k, slug, caught = sys.argv[1:5]
note = sys.argv[5] if len(sys.argv) > 5 else ""
src = os.environ.get("KEEP_SRC") or f"/tmp/mutout-{prop.lower()}/{k}"
dst = f"/verif/seeded/{prop}-{k}-{slug}"
os.makedirs(dst, exist_ok=True)
for f in os.listdir(src):
    if f in ("patch.diff", "demo_test.rs", "demo.sh", "meta.json") or f.endswith(".py") or f.endswith(".c"):
        shutil.copy(os.path.join(src, f), os.path.join(dst, f))
# helper scripts the demo may reference live one level up
for f in os.listdir(os.path.dirname(src)):
    p = os.path.join(os.path.dirname(src), f)
    if os.path.isfile(p) and (f.endswith(".py") or f.endswith(".c")) and os.path.getsize(p) < 200000:
        shutil.copy(p, os.path.join(dst, f))
try:
    meta = json.load(open(os.path.join(dst, "meta.json")))
except Exception as e:
    meta = {"note": f"agent meta.json unreadable: {e}"}
meta["property"] = prop
meta["confirmed_here"] = {
    "repo_head": subprocess.run(["git", "-C", "/repo", "rev-parse", "--short", "HEAD"], capture_output=True, text=True).stdout.strip(),
    "what_was_run": "tools/try_mutant.sh in a scratch worktree of /repo (/tmp/mutrun): git apply patch.diff; cargo build --offline; cargo test --workspace --no-fail-fast --offline (33/33 pass); demonstration with the change (fails) and after git checkout (passes); then ./check <ID> quick with HDV_REPO pointing at the patched worktree",
    "tests_with_change": "33 passed / 0 failed",
    "demo_with_change": "fails",
    "demo_without_change": "passes (exit 0)",
    "caught_by": caught,
}
if note:
    meta["confirmed_here"]["history"] = note
json.dump(meta, open(os.path.join(dst, "meta.json"), "w"), indent=1)
print("kept", dst)
