#!/usr/bin/env python3
"""Regenerates the seeded-change table and the 'missed at first' list of DESIGN.md section 12.1 from
seeded/*/meta.json. Usage: python3 tools/gen_sensitivity.py  (rewrites DESIGN.md in place)."""
import json, glob, os, re
root = os.path.dirname(os.path.dirname(os.path.abspath(__file__)))
def key(d):
    m = re.match(r"(C\d+)-(\d+)-", os.path.basename(d)); return (m.group(1), int(m.group(2)))
dirs = sorted(glob.glob(os.path.join(root, "seeded", "C*-*")), key=key)
def cut(s, n):
    s = " ".join(str(s).split()).replace("|", "\\|")
    return s if len(s) <= n else s[:n].rstrip() + "…"
rows, missed = [], []
for d in dirs:
    m = json.load(open(os.path.join(d, "meta.json")))
    c = m.get("confirmed_here", {})
    name = os.path.basename(d)
    rows.append(f"| `{name}` - {cut(m.get('title',''), 90)} | {cut(m.get('needs_to_manifest', m.get('needs','')), 200)} | {cut(c.get('caught_by',''), 400)} |")
    if c.get("history"):
        missed.append(f"* `{name}`: {' '.join(c['history'].split())}")
p = os.path.join(root, "DESIGN.md")
s = open(p).read()
head = "| seeded change | what it needs to manifest | caught by (quick tier, exit 1) |\n|---|---|---|\n"
i = s.index(head) + len(head)
j = i
while s[j:j+2] == "| ":
    j = s.index("\n", j) + 1
s = s[:i] + "\n".join(rows) + "\n" + s[j:]
marker = "a strengthening, recorded in the change's meta.json:\n\n"
i = s.index(marker) + len(marker)
j = i
while s[j:j+2] == "* ":
    j = s.index("\n", j) + 1
s = s[:i] + "\n".join(missed) + "\n" + s[j:]
s = re.sub(r"\d+ of the \d+ were \*\*missed by the first version\*\*", f"{len(missed)} of the {len(rows)} were **missed by the first version**", s)
s = re.sub(r"\d+ changes are kept; every one is caught by a quick tier", f"{len(rows)} changes are kept; every one is caught by a quick tier", s)
open(p, "w").write(s)
print(len(rows), "changes,", len(missed), "missed at first")
